//! `cfimpl`: one request line in, one reply line out; runs the real `chainfile` crate from
//! /repo's working tree in-process. The protocol is described in /verif/DESIGN.md §3.2.

use std::collections::VecDeque;
use std::io::{self, BufRead, Read, Write};
use std::panic::{catch_unwind, AssertUnwindSafe};

use chainfile::alignment::section::data::record::Kind;
use chainfile::alignment::section::data::Record as DataRecord;
use chainfile::alignment::section::header::Record as HeaderRecord;
use chainfile::alignment::section::header::Sequence;
use chainfile::alignment::section::sections;
use chainfile::alignment::section::Builder as SectionBuilder;
use chainfile::alignment::Section;
use chainfile::liftover::machine;
use chainfile::liftover::stepthrough;
use chainfile::liftover::stepthrough::interval_pair::ContiguousIntervalPair;
use chainfile::liftover::stepthrough::interval_pair::Error as PairError;
use chainfile::line;
use chainfile::reader;
use chainfile::Line;
use chainfile::Reader;
use omics::coordinate::interbase::Coordinate;
use omics::coordinate::interval::interbase::Interval;
use omics::coordinate::Strand;

// ---------------------------------------------------------------------------------------------
// scripted BufRead
// ---------------------------------------------------------------------------------------------

#[derive(Clone, Debug)]
enum Ev {
    Chunk(Vec<u8>),
    Intr,
    /// a hard failure of the given kind (every kind but `Interrupted` is final for `read_until`)
    Fail(io::ErrorKind),
}

struct Script {
    events: VecDeque<Ev>,
    cur: Vec<u8>,
    pos: usize,
}

impl Script {
    fn new(events: Vec<Ev>) -> Self {
        Script { events: events.into(), cur: Vec::new(), pos: 0 }
    }
}

impl Read for Script {
    fn read(&mut self, buf: &mut [u8]) -> io::Result<usize> {
        let avail = self.fill_buf()?;
        let n = avail.len().min(buf.len());
        buf[..n].copy_from_slice(&avail[..n]);
        self.consume(n);
        Ok(n)
    }
}

impl BufRead for Script {
    fn fill_buf(&mut self) -> io::Result<&[u8]> {
        if self.pos < self.cur.len() {
            return Ok(&self.cur[self.pos..]);
        }
        loop {
            match self.events.pop_front() {
                None => {
                    self.cur.clear();
                    self.pos = 0;
                    return Ok(&[]);
                }
                Some(Ev::Chunk(b)) => {
                    if b.is_empty() {
                        continue;
                    }
                    self.cur = b;
                    self.pos = 0;
                    return Ok(&self.cur[..]);
                }
                Some(Ev::Intr) => return Err(io::Error::new(io::ErrorKind::Interrupted, "scripted interrupt")),
                Some(Ev::Fail(kind)) => return Err(io::Error::new(kind, "scripted failure")),
            }
        }
    }

    fn consume(&mut self, n: usize) {
        self.pos += n;
    }
}

// ---------------------------------------------------------------------------------------------
// codec
// ---------------------------------------------------------------------------------------------

fn hex(bs: &[u8]) -> String {
    let mut s = String::with_capacity(1 + bs.len() * 2);
    s.push('x');
    for b in bs {
        s.push_str(&format!("{:02x}", b));
    }
    s
}

fn unhex_raw(s: &str) -> Option<Vec<u8>> {
    if s.len() % 2 != 0 {
        return None;
    }
    let b = s.as_bytes();
    let mut out = Vec::with_capacity(b.len() / 2);
    for i in (0..b.len()).step_by(2) {
        let h = (b[i] as char).to_digit(16)?;
        let l = (b[i + 1] as char).to_digit(16)?;
        out.push((h * 16 + l) as u8);
    }
    Some(out)
}

fn unhex(s: &str) -> Option<Vec<u8>> {
    unhex_raw(s.strip_prefix('x')?)
}

fn unhex_str(s: &str) -> Option<String> {
    String::from_utf8(unhex(s)?).ok()
}

fn src_of(s: &str) -> Option<Vec<Ev>> {
    if s == "-" {
        return Some(vec![]);
    }
    s.split(',')
        .map(|t| {
            if t == "i" {
                Some(Ev::Intr)
            } else if let Some(k) = t.strip_prefix('f') {
                Some(Ev::Fail(match k {
                    "" | "o" => io::ErrorKind::Other,
                    "u" => io::ErrorKind::UnexpectedEof,
                    "w" => io::ErrorKind::WouldBlock,
                    "t" => io::ErrorKind::TimedOut,
                    "b" => io::ErrorKind::BrokenPipe,
                    "r" => io::ErrorKind::ConnectionReset,
                    "p" => io::ErrorKind::PermissionDenied,
                    _ => return None,
                }))
            } else {
                unhex_raw(t.strip_prefix('c')?).map(Ev::Chunk)
            }
        })
        .collect()
}

fn strand_str(s: Strand) -> &'static str {
    match s {
        Strand::Positive => "+",
        Strand::Negative => "-",
    }
}

fn strand_of(s: &str) -> Option<Strand> {
    match s {
        "+" => Some(Strand::Positive),
        "-" => Some(Strand::Negative),
        _ => None,
    }
}

fn coord_str(c: &Coordinate) -> String {
    format!("{}:{}:{}", hex(c.contig().as_str().as_bytes()), strand_str(c.strand()), c.position().get())
}

fn iv_str(i: &Interval) -> String {
    format!(
        "{}:{}:{}-{}",
        hex(i.contig().as_str().as_bytes()),
        strand_str(i.strand()),
        i.start().position().get(),
        i.end().position().get()
    )
}

fn pair_str(p: &ContiguousIntervalPair) -> String {
    touch(p);
    format!("{}>{}", iv_str(p.reference()), iv_str(p.query()))
}

fn coord_of(s: &str) -> Option<Coordinate> {
    let parts: Vec<&str> = s.split(':').collect();
    if parts.len() != 3 {
        return None;
    }
    let contig = unhex_str(parts[0])?;
    let strand = strand_of(parts[1])?;
    let pos: u64 = parts[2].parse().ok()?;
    Some(Coordinate::new(contig.as_str(), strand, pos))
}

/// None: malformed request; Some(None): `Interval::try_new` refused.
fn iv_of(s: &str) -> Option<Option<Interval>> {
    let parts: Vec<&str> = s.split(':').collect();
    if parts.len() != 3 {
        return None;
    }
    let contig = unhex_str(parts[0])?;
    let strand = strand_of(parts[1])?;
    let se: Vec<&str> = parts[2].split('-').collect();
    if se.len() != 2 {
        return None;
    }
    let a: u64 = se[0].parse().ok()?;
    let b: u64 = se[1].parse().ok()?;
    Some(
        Interval::try_new(
            Coordinate::new(contig.as_str(), strand, a),
            Coordinate::new(contig.as_str(), strand, b),
        )
        .ok(),
    )
}

fn opt_str(o: Option<u64>) -> String {
    match o {
        None => "_".into(),
        Some(n) => n.to_string(),
    }
}

fn opt_of(s: &str) -> Option<Option<u64>> {
    if s == "_" {
        Some(None)
    } else {
        s.parse().ok().map(Some)
    }
}

fn kind_str(k: Kind) -> &'static str {
    match k {
        Kind::Terminating => "T",
        Kind::NonTerminating => "N",
    }
}

fn seq_str(s: &Sequence) -> String {
    format!(
        "{},{},{},{},{}",
        hex(s.chromosome_name().as_bytes()),
        s.chromosome_size(),
        strand_str(s.strand()),
        s.alignment_start(),
        s.alignment_end()
    )
}

/// every value and every error the library hands out is also printed (Display and Debug), as any caller's
/// log line or `?`-propagated message would: a formatter that panics shows up as a panic of the operation
fn touch<T: std::fmt::Display + std::fmt::Debug>(x: &T) {
    // first into a sink that is too small (a full disk, a closed pipe): a failed print must leave nothing behind
    // that a later print could pick up
    let before = x.to_string();
    {
        use std::io::Write as _;
        let mut small = [0u8; 3];
        let _ = write!(&mut small[..], "{}", x);
    }
    let after = x.to_string();
    if before != after {
        // reported as a panic of the operation: the printed text is not a function of the value
        panic!("Display depends on what was printed before: {:?} then {:?}", before, after);
    }
    let _ = format!("{:?}", x);
}

fn touch_dbg<T: std::fmt::Debug>(x: &T) {
    let _ = format!("{:?}", x);
}

fn hdr_str(h: &HeaderRecord) -> String {
    touch(h);
    format!("{} {} {} {}", h.score(), seq_str(h.reference_sequence()), seq_str(h.query_sequence()), h.id())
}

fn rec_str(r: &DataRecord) -> String {
    touch(r);
    format!("{} {} {} {}", r.size(), opt_str(r.dt()), opt_str(r.dq()), kind_str(r.kind()))
}

fn line_str(l: &Line) -> String {
    touch(l);
    match l {
        Line::Empty => "empty".into(),
        Line::Header(h) => format!("header {}", hdr_str(h)),
        Line::AlignmentData(r) => format!("data {}", rec_str(r)),
    }
}

fn line_err_text(e: &line::Error) -> &str {
    match e {
        line::Error::InvalidHeaderRecord { line, .. } => line,
        line::Error::InvalidAlignmentDataRecord { line, .. } => line,
    }
}

fn sec_err_str(e: &sections::Error) -> String {
    touch(e);
    match e {
        sections::Error::Builder(_) => "E builder".into(),
        #[allow(unreachable_patterns)]
        sections::Error::Parse(p) => match p {
            sections::ParseError::AbruptEndInSection => "E abrupt".into(),
            sections::ParseError::BlankLineInSection(n) => format!("E blank {}", n),
            sections::ParseError::DataBetweenSections(r) => format!("E databetween {}", rec_str(r)),
            sections::ParseError::HeaderInSection(h) => format!("E headerin {}", hdr_str(h)),
            sections::ParseError::Reader(reader::Error::Io(_)) => "E io".into(),
            sections::ParseError::Reader(reader::Error::Line(le)) => {
                format!("E unparsable {}", hex(line_err_text(le).as_bytes()))
            }
        },
    }
}

fn sec_str(s: &Section) -> String {
    touch_dbg(s);
    let mut out = format!("S {}", hdr_str(s.header()));
    for r in s.data().iter() {
        out.push_str(" | ");
        out.push_str(&rec_str(r));
    }
    out
}

fn st_err_str(e: &stepthrough::Error) -> &'static str {
    touch(e);
    match e {
        stepthrough::Error::IntervalStepthroughOutOfBounds(..) => "E oob",
        stepthrough::Error::Interval(_) => "E interval",
        stepthrough::Error::InvalidIntervalPair(_) => "E pair",
        stepthrough::Error::MisalignedDataSection => "E misaligned",
        stepthrough::Error::Sequence(_) => "E seq",
        #[allow(unreachable_patterns)]
        _ => "E other",
    }
}

// ---------------------------------------------------------------------------------------------
// operations
// ---------------------------------------------------------------------------------------------

fn op_line(bs: Vec<u8>) -> String {
    let s = match String::from_utf8(bs) {
        Ok(s) => s,
        Err(_) => return "badreq".into(),
    };
    match s.parse::<Line>() {
        Err(line::Error::InvalidHeaderRecord { .. }) => "err header".into(),
        Err(line::Error::InvalidAlignmentDataRecord { .. }) => "err data".into(),
        Ok(l) => {
            // read-only queries first (they must not affect equality), then print, re-parse, compare with `==`
            if let Line::Header(h) = &l {
                let _ = h.reference_sequence().interval();
                let _ = h.query_sequence().interval();
            }
            let printed = l.to_string();
            let eq = match printed.parse::<Line>() {
                Ok(l2) => l2 == l && s.parse::<Line>().map(|l3| l3 == l).unwrap_or(false),
                Err(_) => false,
            };
            format!("ok {} print={} eq={}", line_str(&l), hex(printed.as_bytes()), eq)
        }
    }
}

fn op_rec_new(size: u64, dt: Option<u64>, dq: Option<u64>, kind: Kind) -> String {
    use chainfile::alignment::section::data::Error as E;
    match DataRecord::try_new(size, dt, dq, kind) {
        Err(E::InvalidNonTerminatingDt) => "err nontermDt".into(),
        Err(E::InvalidNonTerminatingDq) => "err nontermDq".into(),
        Err(E::InvalidTerminatingDt) => "err termDt".into(),
        Err(E::InvalidTerminatingDq) => "err termDq".into(),
        Err(_) => "err other".into(),
        Ok(r) => format!("ok {} print={}", rec_str(&r), hex(r.to_string().as_bytes())),
    }
}

fn op_seq(parts: [String; 5]) -> String {
    use chainfile::alignment::section::header::sequence::Error as E;
    match Sequence::try_from_str_parts(&parts[0], &parts[1], &parts[2], &parts[3], &parts[4]) {
        Err(E::Parse(_)) => "err parse".into(),
        Err(E::StartPositionGreaterThanEndPosition) => "err order".into(),
        Err(E::Interval(_)) => "err interval".into(),
        Ok(s) => {
            let iv = match s.interval() {
                Ok(i) => iv_str(&i),
                Err(E::Interval(omics::coordinate::interval::Error::OutOfBounds)) => "err_oob".into(),
                Err(_) => "err_other".into(),
            };
            format!("ok {} iv={}", seq_str(&s), iv)
        }
    }
}

fn pair_err_str(e: &PairError) -> String {
    touch(e);
    use omics::coordinate::interval::ClampError;
    use omics::coordinate::interval::Error as IE;
    match e {
        PairError::EntityCountsDontMatch(..) => "err counts".into(),
        PairError::Interval(IE::Clamp(ClampError::MismatchedContigs { .. })) => "err contig".into(),
        PairError::Interval(IE::Clamp(ClampError::MismatchedStrand { .. })) => "err strand".into(),
        PairError::Interval(_) => "err interval".into(),
    }
}

fn with_iv(s: &str, k: impl FnOnce(Interval) -> String) -> String {
    match iv_of(s) {
        None => "badreq".into(),
        Some(None) => "badiv".into(),
        Some(Some(i)) => k(i),
    }
}

fn with_pair(r: &str, q: &str, k: impl FnOnce(ContiguousIntervalPair) -> String) -> String {
    with_iv(r, |r| {
        with_iv(q, |q| match ContiguousIntervalPair::try_new(r, q) {
            Err(e) => pair_err_str(&e),
            Ok(p) => k(p),
        })
    })
}

fn op_lapper(args: &[&str]) -> String {
    if args.len() < 2 {
        return "badreq".into();
    }
    let s: u64 = match args[0].parse() {
        Ok(v) => v,
        Err(_) => return "badreq".into(),
    };
    let e: u64 = match args[1].parse() {
        Ok(v) => v,
        Err(_) => return "badreq".into(),
    };
    let mut ivs = Vec::new();
    for (i, t) in args[2..].iter().enumerate() {
        let se: Vec<&str> = t.split('-').collect();
        if se.len() != 2 {
            return "badreq".into();
        }
        match (se[0].parse::<u64>(), se[1].parse::<u64>()) {
            (Ok(a), Ok(b)) => ivs.push(rust_lapper::Interval { start: a, stop: b, val: i }),
            _ => return "badreq".into(),
        }
    }
    let lp = rust_lapper::Lapper::new(ivs);
    let mut out = String::from("ids");
    for h in lp.find(s, e) {
        out.push_str(&format!(" {}", h.val));
    }
    out
}

fn io_err_str(e: &io::Error) -> &'static str {
    touch(e);
    if e.kind() == io::ErrorKind::InvalidData {
        if e.get_ref().map(|r| r.is::<line::Error>()).unwrap_or(false) {
            "err"
        } else {
            "utf8"
        }
    } else {
        "io"
    }
}

fn raw_item(reader: &mut Reader<Script>, buf: &mut String) -> (String, bool) {
    match reader.read_line_raw(buf) {
        Ok(0) => ("eof".into(), true),
        Ok(n) => (format!("L{}:{}", n, hex(buf.as_bytes())), false),
        Err(e) => (io_err_str(&e).into(), false),
    }
}

fn op_raw(src: Vec<Ev>) -> String {
    let cap = src.iter().map(|e| if let Ev::Chunk(b) = e { b.len() + 1 } else { 1 }).sum::<usize>() + 2;
    let mut reader = Reader::new(Script::new(src));
    let mut buf = String::new();
    let mut out = Vec::new();
    for _ in 0..cap {
        let (s, end) = raw_item(&mut reader, &mut buf);
        out.push(s);
        if end {
            return out.join(" ");
        }
    }
    out.push("cap".into());
    out.join(" ")
}

fn lines_item(r: Option<io::Result<Line>>) -> String {
    match r {
        None => "eof".into(),
        Some(Ok(l)) => line_str(&l),
        Some(Err(e)) => io_err_str(&e).into(),
    }
}

fn op_lines(src: Vec<Ev>) -> String {
    let cap = src.iter().map(|e| if let Ev::Chunk(b) = e { b.len() + 1 } else { 1 }).sum::<usize>() + 2;
    let mut reader = Reader::new(Script::new(src));
    let mut it = reader.lines();
    let mut out = Vec::new();
    for _ in 0..cap {
        let r = it.next();
        let end = r.is_none();
        out.push(lines_item(r));
        if end {
            return out.join(" ; ");
        }
    }
    out.push("cap".into());
    out.join(" ; ")
}

fn sec_item(r: Option<Result<Section, sections::Error>>) -> String {
    match r {
        None => "done".into(),
        Some(Ok(s)) => sec_str(&s),
        Some(Err(e)) => sec_err_str(&e),
    }
}

fn op_sections(src: Vec<Ev>, cap: usize) -> String {
    let again = src.clone();
    let mut reader = Reader::new(Script::new(src));
    let mut it = reader.sections();
    let mut out = Vec::new();
    for _ in 0..cap {
        let r = it.next();
        let end = r.is_none();
        out.push(sec_item(r));
        if end {
            // the drain ended by itself: the iterator's other entry points (overridable trait methods) must
            // agree with repeated next() — count(), last(), size_hint() on fresh iterators over the same stream
            let n = out.len() - 1;
            let mut r2 = Reader::new(Script::new(again.clone()));
            let it2 = r2.sections();
            let (lo, hi) = it2.size_hint();
            let c = it2.count();
            let mut r3 = Reader::new(Script::new(again.clone()));
            let last = r3.sections().last();
            let want_last = if n == 0 { "done".to_string() } else { out[n - 1].clone() };
            if c != n || lo > n || hi.map_or(false, |h| h < n) {
                let k = out.len() - 1;
                out[k] = format!("adaptor-differ:count={},size_hint=({},{:?})-for-{}-items", c, lo, hi, n);
            } else if sec_item(last) != want_last {
                let k = out.len() - 1;
                out[k] = "adaptor-differ:last".to_string();
            } else {
                // nth(k) (and with it skip() and step_by()) on fresh iterators: the k-th item of the drain
                for k in 0..=n.min(6) {
                    let mut r4 = Reader::new(Script::new(again.clone()));
                    let got = sec_item(r4.sections().nth(k));
                    let want = if k < n { out[k].clone() } else { "done".to_string() };
                    if got != want {
                        let j = out.len() - 1;
                        out[j] = format!("adaptor-differ:nth({})", k);
                        break;
                    }
                    let mut r5 = Reader::new(Script::new(again.clone()));
                    let got2 = sec_item(r5.sections().skip(k).next());
                    if got2 != want {
                        let j = out.len() - 1;
                        out[j] = format!("adaptor-differ:skip({})", k);
                        break;
                    }
                }
                if n >= 2 && !out[out.len() - 1].starts_with("adaptor") {
                    let mut r6 = Reader::new(Script::new(again.clone()));
                    let stepped: Vec<String> = r6.sections().step_by(2).map(|x| sec_item(Some(x))).collect();
                    let want: Vec<String> = out[..n].iter().step_by(2).cloned().collect();
                    if stepped != want {
                        let j = out.len() - 1;
                        out[j] = "adaptor-differ:step_by(2)".to_string();
                    }
                }
            }
            return out.join(" ; ");
        }
    }
    out.push("cap".into());
    out.join(" ; ")
}

fn op_step(hdr: Vec<u8>, recs: Vec<Vec<u8>>, cap: usize) -> String {
    let h = match String::from_utf8(hdr).ok().and_then(|s| s.parse::<HeaderRecord>().ok()) {
        Some(h) => h,
        None => return "badinput".into(),
    };
    let mut b = match SectionBuilder::default().header(h) {
        Ok(b) => b,
        Err(_) => return "badinput".into(),
    };
    if recs.is_empty() {
        return "badinput".into();
    }
    for r in recs {
        match String::from_utf8(r).ok().and_then(|s| s.parse::<DataRecord>().ok()) {
            Some(r) => b = b.push_data(r),
            None => return "badinput".into(),
        }
    }
    let section = match b.try_build() {
        Ok(s) => s,
        Err(_) => return "badinput".into(),
    };
    let mut it = match section.stepthrough_with_data() {
        Ok(it) => it,
        Err(_) => return "new_err seq".into(),
    };
    // the sibling API without the records must walk the same pairs and report the same errors
    let plain: Vec<String> = match section.stepthrough() {
        Err(_) => vec!["new_err".into()],
        Ok(st) => st
            .take(cap)
            .map(|r| match r {
                Ok(p) => format!("P {}", pair_str(&p)),
                Err(e) => st_err_str(&e).to_string(),
            })
            .collect(),
    };
    let mut out = Vec::new();
    let mut proj = Vec::new();
    let mut ended = false;
    for _ in 0..cap {
        match it.next() {
            None => {
                ended = true;
                break;
            }
            Some(Ok((p, r))) => {
                proj.push(format!("P {}", pair_str(&p)));
                out.push(format!("P {} | {}", pair_str(&p), rec_str(&r)));
            }
            Some(Err(e)) => {
                proj.push(st_err_str(&e).to_string());
                out.push(st_err_str(&e).to_string());
            }
        }
    }
    out.push(if ended { "done".to_string() } else { "cap".to_string() });
    // the iterator's other entry points (count, last, nth, size_hint — overridable trait methods) must agree
    // with repeated next(); only asked when the drain ended by itself, so none of them can run forever
    if ended && plain == proj {
        let n = proj.len();
        let show = |r: Option<Result<ContiguousIntervalPair, chainfile::liftover::stepthrough::Error>>| match r {
            None => "none".to_string(),
            Some(Ok(p)) => format!("P {}", pair_str(&p)),
            Some(Err(e)) => st_err_str(&e).to_string(),
        };
        let mut bad: Option<String> = None;
        if let Ok(st) = section.stepthrough() {
            let (lo, hi) = st.size_hint();
            if lo > n || hi.map_or(false, |h| h < n) {
                bad = Some(format!("size_hint({},{:?})-for-{}-items", lo, hi, n));
            }
            let c = st.count();
            if c != n {
                bad = Some(format!("count={}-for-{}-items", c, n));
            }
        }
        if let Ok(st) = section.stepthrough() {
            let l = show(st.last());
            if l != proj.last().cloned().unwrap_or("none".into()) {
                bad = Some("last".into());
            }
        }
        for k in 0..=n {
            if let Ok(mut st) = section.stepthrough() {
                if show(st.nth(k)) != proj.get(k).cloned().unwrap_or("none".into()) {
                    bad = Some(format!("nth({})", k));
                }
            }
        }
        if let Ok(st) = section.stepthrough_with_data() {
            if st.count() != n {
                bad = Some("with_data.count".into());
            }
        }
        // iterators abandoned half-way (dropped after k items) — nothing to compare, but the drop must not panic
        for k in 0..=n.min(4) {
            if let Ok(st) = section.stepthrough_with_data() {
                let _ = st.take(k).count();
            }
            if let Ok(st) = section.stepthrough() {
                let _ = st.take(k).count();
            }
        }
        if let Some(b) = bad {
            out.push(format!("plain=differ:{}:adaptor-{}", n, b.replace(' ', "")));
            return out.join(" ; ");
        }
    }
    // `plain` was drained with take(cap): cap items means it did not end by itself
    out.push(if plain == proj {
        "plain=ok".to_string()
    } else {
        // (does the API without records go on yielding pairs after it has reported an error?)
        let after = plain
            .iter()
            .position(|x| x.starts_with('E'))
            .map_or(false, |k| plain[k + 1..].iter().any(|x| x.starts_with("P ")));
        format!(
            "plain=differ:{}:{}{}",
            plain.len(),
            if plain.len() >= cap { "endless" } else { "ended" },
            if after { "-pairs-after-error" } else { "" }
        )
    });
    out.join(" ; ")
}

/// re-serialise all sections as the library exposes them: header line, data lines, one blank line
fn op_reser(src: Vec<Ev>) -> String {
    let mut reader = Reader::new(Script::new(src));
    let mut out = String::new();
    let mut originals = Vec::new();
    for r in reader.sections() {
        match r {
            Err(_) => return "err".into(),
            Ok(s) => {
                // a read-only walk over the section must not change what it is equal to
                if let Ok(st) = s.stepthrough() {
                    for _ in st.take(s.data().len() + 2) {}
                }
                out.push_str(&s.header().to_string());
                out.push('\n');
                for d in s.data().iter() {
                    out.push_str(&d.to_string());
                    out.push('\n');
                }
                out.push('\n');
                originals.push(s);
            }
        }
    }
    let mut again = Reader::new(out.as_bytes());
    let reparsed: Vec<_> = again.sections().collect();
    let eq = reparsed.len() == originals.len()
        && reparsed.iter().zip(originals.iter()).all(|(a, b)| matches!(a, Ok(a) if a == b));
    format!("ok {} eq={}", hex(out.as_bytes()), eq)
}

fn dict_str(d: &machine::ChromosomeDictionary) -> String {
    let mut v: Vec<String> = d.iter().map(|(k, s)| format!("{}:{}", hex(k.as_bytes()), s)).collect();
    v.sort();
    format!("[{}]", v.join(","))
}

fn build_err_str(e: &machine::builder::Error) -> String {
    touch(e);
    use machine::builder::Error as E;
    match e {
        E::InvalidSections(e) => format!("err sections {}", sec_err_str(e)),
        E::StepthroughError(e) => format!("err step {}", st_err_str(e)),
        // any other variant (at the pinned commit + fixes: ConflictingChromosomeSize); a wildcard keeps
        // the harness compiling when the enum changes
        #[allow(unreachable_patterns)]
        _ => "err conflict".into(),
    }
}

fn build(src: Vec<Ev>) -> Result<machine::Machine, machine::builder::Error> {
    machine::Builder.try_build_from(Reader::new(Script::new(src)))
}

fn build_str(r: &Result<machine::Machine, machine::builder::Error>) -> String {
    match r {
        Ok(m) => format!("ok ref={} qry={}", dict_str(m.reference_chromosomes()), dict_str(m.query_chromosomes())),
        Err(e) => build_err_str(e),
    }
}

fn lift_str(m: &machine::Machine, iv: &str) -> String {
    with_iv(iv, |iv| {
        match catch_unwind(AssertUnwindSafe(|| m.liftover(iv))) {
            Err(_) => "panic".into(),
            Ok(None) => "none".into(),
            Ok(Some(ps)) => {
                let mut s = String::from("some");
                for p in &ps {
                    s.push(' ');
                    s.push_str(&pair_str(p));
                }
                s
            }
        }
    })
}

/// results fed back into the pair API: for every pair the machine returns, lift its two reference ends
/// through it and clamp it once more to the request (which must give the same pair)
fn thru_str(m: &machine::Machine, iv: &str) -> String {
    with_iv(iv, |iv| {
        match catch_unwind(AssertUnwindSafe(|| {
            m.liftover(iv.clone()).map(|ps| {
                ps.into_iter()
                    .map(|p| {
                        let a = p.liftover(p.reference().start()).map(|c| coord_str(&c)).unwrap_or("none".into());
                        let b = p.liftover(p.reference().end()).map(|c| coord_str(&c)).unwrap_or("none".into());
                        let again = match p.clone().clamp(iv.clone()) {
                            Ok(p2) => pair_str(&p2),
                            Err(e) => pair_err_str(&e).replace(' ', "_"),
                        };
                        format!("{} {} {} {}", pair_str(&p), a, b, again)
                    })
                    .collect::<Vec<_>>()
            })
        })) {
            Err(_) => "panic".into(),
            Ok(None) => "none".into(),
            Ok(Some(items)) => format!("some {}", items.join(" | ")),
        }
    })
}

fn op_liftthru(src: Vec<Ev>, ivs: &str) -> String {
    let b = build(src);
    let mut out = vec![build_str(&b)];
    if let Ok(m) = &b {
        for iv in ivs.split(',') {
            out.push(thru_str(m, iv));
        }
    }
    out.join(" ; ")
}

fn op_liftover(src: Vec<Ev>, ivs: &str) -> String {
    let b = build(src);
    let mut out = vec![build_str(&b)];
    if let Ok(m) = &b {
        for iv in ivs.split(',') {
            out.push(lift_str(m, iv));
        }
    }
    out.join(" ; ")
}

fn op_ops(src: Vec<Ev>, ops: &str) -> String {
    let mut reader = Reader::new(Script::new(src));
    let mut buf = String::new();
    let mut out = Vec::new();
    for op in ops.split(',') {
        if op == "reopen" {
            // hand the underlying stream to a new Reader: the cursor lives in the stream, not in the Reader
            reader = Reader::new(reader.into_inner());
        } else if op == "raw" {
            out.push(raw_item(&mut reader, &mut buf).0);
        } else if op == "line" {
            out.push(match reader.read_line(&mut buf) {
                Ok(None) => "none".into(),
                Ok(Some(l)) => format!("ok {}", line_str(&l)),
                Err(e) => {
                    touch(&e);
                    match e {
                        reader::Error::Io(e) => format!("err {}", io_err_str(&e)),
                        reader::Error::Line(_) => "err err".into(),
                    }
                }
            });
        } else if let Some(k) = op.strip_prefix("lines") {
            let k: usize = match k.parse() {
                Ok(k) => k,
                Err(_) => return "badreq".into(),
            };
            let mut it = reader.lines();
            let mut s = String::from("lines");
            for _ in 0..k {
                s.push_str(" / ");
                s.push_str(&lines_item(it.next()));
            }
            out.push(s);
        } else if let Some(k) = op.strip_prefix("secs") {
            let k: usize = match k.parse() {
                Ok(k) => k,
                Err(_) => return "badreq".into(),
            };
            let mut it = reader.sections();
            let mut s = String::from("secs");
            for _ in 0..k {
                s.push_str(" / ");
                s.push_str(&sec_item(it.next()));
            }
            out.push(s);
        } else {
            return "badreq".into();
        }
    }
    out.join(" ; ")
}

fn handle(line: &str) -> String {
    let toks: Vec<&str> = line.trim().split(' ').collect();
    match toks.as_slice() {
        ["line", h] => unhex(h).map(op_line).unwrap_or("badreq".into()),
        ["rec_new", s, dt, dq, k] => {
            let kind = match *k {
                "T" => Kind::Terminating,
                "N" => Kind::NonTerminating,
                _ => return "badreq".into(),
            };
            match (s.parse::<u64>(), opt_of(dt), opt_of(dq)) {
                (Ok(s), Some(dt), Some(dq)) => op_rec_new(s, dt, dq, kind),
                _ => "badreq".into(),
            }
        }
        ["seq", a, b, c, d, e] => match (unhex_str(a), unhex_str(b), unhex_str(c), unhex_str(d), unhex_str(e)) {
            (Some(a), Some(b), Some(c), Some(d), Some(e)) => op_seq([a, b, c, d, e]),
            _ => "badreq".into(),
        },
        ["pair_new", r, q] => with_pair(r, q, |p| format!("ok {}", pair_str(&p))),
        ["pair_lift", r, q, c] => with_pair(r, q, |p| match coord_of(c) {
            None => "badreq".into(),
            Some(c) => match p.liftover(&c) {
                None => "none".into(),
                Some(c2) => format!("some {}", coord_str(&c2)),
            },
        }),
        ["pair_clamp", r, q, iv] => with_pair(r, q, |p| {
            with_iv(iv, |iv| match p.clamp(iv) {
                Ok(p2) => format!("ok {}", pair_str(&p2)),
                Err(e) => pair_err_str(&e),
            })
        }),
        // clamp, then lift coordinates through the pair that clamp returned (a clamped pair is a pair like
        // any other: the pairs a machine returns are clamped pairs)
        ["pair_clamp_lift", r, q, iv, cs] => with_pair(r, q, |p| {
            with_iv(iv, |iv| match p.clamp(iv) {
                Ok(p2) => {
                    let mut s = format!("ok {}", pair_str(&p2));
                    for c in cs.split(',') {
                        match coord_of(c) {
                            None => return "badreq".into(),
                            Some(c) => match p2.liftover(&c) {
                                None => s.push_str(" ; none"),
                                Some(c2) => s.push_str(&format!(" ; some {}", coord_str(&c2))),
                            },
                        }
                    }
                    s
                }
                Err(e) => pair_err_str(&e),
            })
        }),
        ["lapper", rest @ ..] => op_lapper(rest),
        ["raw", src] => src_of(src).map(op_raw).unwrap_or("badreq".into()),
        ["lines", src] => src_of(src).map(op_lines).unwrap_or("badreq".into()),
        ["sections", src, cap] => match (src_of(src), cap.parse::<usize>()) {
            (Some(s), Ok(c)) => op_sections(s, c),
            _ => "badreq".into(),
        },
        ["step", hdr, recs, cap] => {
            let recs: Option<Vec<Vec<u8>>> = recs.split(',').map(unhex).collect();
            match (unhex(hdr), recs, cap.parse::<usize>()) {
                (Some(h), Some(rs), Ok(c)) => op_step(h, rs, c),
                _ => "badreq".into(),
            }
        }
        ["reser", src] => src_of(src).map(op_reser).unwrap_or("badreq".into()),
        ["num", h] => match unhex_str(h) {
            // `u64::from_str` (Number) and `usize::from_str` (score, id) on the same text
            Some(t) => match (t.parse::<u64>(), t.parse::<usize>()) {
                (Ok(a), Ok(b)) if a as u128 == b as u128 => format!("ok {}", a),
                (Err(_), Err(_)) => "err".into(),
                _ => "differ".into(),
            },
            None => "badreq".into(),
        },
        ["build", src] => src_of(src).map(|s| build_str(&build(s))).unwrap_or("badreq".into()),
        ["liftover", src, ivs] => src_of(src).map(|s| op_liftover(s, ivs)).unwrap_or("badreq".into()),
        ["liftthru", src, ivs] => src_of(src).map(|s| op_liftthru(s, ivs)).unwrap_or("badreq".into()),
        ["ops", src, ops] => src_of(src).map(|s| op_ops(s, ops)).unwrap_or("badreq".into()),
        _ => "badreq".into(),
    }
}

fn main() {
    std::panic::set_hook(Box::new(|_| {}));
    let stdin = io::stdin();
    let stdout = io::stdout();
    let mut out = io::BufWriter::new(stdout.lock());
    let mut line = String::new();
    let mut inp = stdin.lock();
    let mut nreq: u64 = 0;
    loop {
        line.clear();
        match inp.read_line(&mut line) {
            Ok(0) | Err(_) => break,
            Ok(_) => {}
        }
        // the global log level alternates between Off (the default of any program) and Trace (what a program
        // run with verbose logging has): the arguments of the library's log statements are evaluated only in the
        // second mode, and no answer may depend on it. No logger is installed; nothing is printed.
        nreq += 1;
        log::set_max_level(if nreq % 2 == 0 { log::LevelFilter::Off } else { log::LevelFilter::Trace });
        let reply = match catch_unwind(AssertUnwindSafe(|| handle(&line))) {
            Ok(r) => r,
            Err(_) => "panic".to_string(),
        };
        let _ = writeln!(out, "{}", reply);
        let _ = out.flush();
    }
}
