//! C18 probe: (1) compile-time `Send + Sync` obligations on the machine, its results and its error
//! types; (2) a run of one query list on 1 thread and on N threads sharing one machine.
//! stdin: line 1 = hex of the chain file, following lines = intervals `name:strand:start-end`
//! stdout: `seq <answers>` then `par <answers per thread joined by |>` (answers as in cfimpl)

use std::io::{self, BufRead};
use std::sync::Arc;

use chainfile::liftover::machine;
use chainfile::liftover::stepthrough::interval_pair::ContiguousIntervalPair;
use omics::coordinate::interbase::Coordinate;
use omics::coordinate::interval::interbase::Interval;
use omics::coordinate::Strand;

fn assert_send_sync<T: Send + Sync>() {}
fn assert_static<T: 'static>() {}

#[allow(dead_code)]
fn obligations() {
    assert_send_sync::<machine::Machine>();
    assert_send_sync::<ContiguousIntervalPair>();
    assert_send_sync::<Option<Vec<ContiguousIntervalPair>>>();
    assert_send_sync::<machine::builder::Error>();
    assert_send_sync::<chainfile::alignment::section::sections::Error>();
    assert_send_sync::<chainfile::alignment::section::sections::ParseError>();
    assert_send_sync::<chainfile::liftover::stepthrough::Error>();
    assert_send_sync::<chainfile::liftover::stepthrough::interval_pair::Error>();
    assert_send_sync::<chainfile::reader::Error>();
    assert_send_sync::<chainfile::line::Error>();
    assert_send_sync::<chainfile::alignment::section::header::Error>();
    assert_send_sync::<chainfile::alignment::section::header::sequence::Error>();
    assert_send_sync::<chainfile::alignment::section::data::Error>();
    assert_send_sync::<chainfile::alignment::Section>();
    assert_send_sync::<chainfile::Line>();
    assert_static::<machine::Machine>();
}

fn iv_of(s: &str) -> Option<Interval> {
    let parts: Vec<&str> = s.split(':').collect();
    if parts.len() != 3 {
        return None;
    }
    let strand = match parts[1] {
        "+" => Strand::Positive,
        "-" => Strand::Negative,
        _ => return None,
    };
    let se: Vec<&str> = parts[2].split('-').collect();
    let a: u64 = se.first()?.parse().ok()?;
    let b: u64 = se.get(1)?.parse().ok()?;
    Interval::try_new(Coordinate::new(parts[0], strand, a), Coordinate::new(parts[0], strand, b)).ok()
}

fn answer(m: &machine::Machine, iv: &Interval) -> String {
    match m.liftover(iv.clone()) {
        None => "none".into(),
        Some(ps) => ps.iter().map(|p| p.to_string()).collect::<Vec<_>>().join(","),
    }
}

fn main() {
    let stdin = io::stdin();
    let mut lines = stdin.lock().lines();
    let hex = lines.next().unwrap().unwrap();
    let data: Vec<u8> = (0..hex.len()).step_by(2).map(|i| u8::from_str_radix(&hex[i..i + 2], 16).unwrap()).collect();
    let ivs: Vec<Interval> = lines.filter_map(|l| iv_of(l.unwrap().trim())).collect();
    let m = match machine::Builder.try_build_from(chainfile::Reader::new(&data[..])) {
        Ok(m) => m,
        Err(e) => {
            println!("builderr {}", e);
            return;
        }
    };
    let seq: Vec<String> = ivs.iter().map(|iv| answer(&m, iv)).collect();
    println!("seq {}", seq.join(";"));
    drop(m);
    let ivs = Arc::new(ivs);
    let expected = Arc::new(seq);
    let mut par: Vec<String> = Vec::new();
    // several FRESH machines: the very first accesses come from all threads at once (barrier), so that
    // lazily initialised or memoised state inside the machine is exercised concurrently from the start
    for fresh in 0..12usize {
        let m = match machine::Builder.try_build_from(chainfile::Reader::new(&data[..])) {
            Ok(m) => Arc::new(m),
            Err(e) => {
                println!("builderr {}", e);
                return;
            }
        };
        let barrier = Arc::new(std::sync::Barrier::new(8));
        let rounds = if fresh == 0 { 300 } else { 12 };
        let threads: Vec<_> = (0..8usize)
            .map(|t| {
                let m = Arc::clone(&m);
                let ivs = Arc::clone(&ivs);
                let expected = Arc::clone(&expected);
                let barrier = Arc::clone(&barrier);
                std::thread::spawn(move || {
                    let n = ivs.len();
                    let mut bad: Option<String> = None;
                    barrier.wait();
                    if n == 0 {
                        return "ok".to_string();
                    }
                    for round in 0..rounds {
                        for k in 0..n {
                            let idx = (k * (1 + t % 3) + t * 7 + round) % n;
                            for _ in 0..(1 + (t + k) % 3) {
                                let a = answer(&m, &ivs[idx]);
                                if a != expected[idx] && bad.is_none() {
                                    bad = Some(format!(
                                        "fresh machine {} thread {} query {} got [{}] expected [{}]",
                                        fresh, t, idx, a, expected[idx]
                                    ));
                                }
                            }
                        }
                    }
                    bad.unwrap_or_else(|| "ok".to_string())
                })
            })
            .collect();
        for h in threads {
            par.push(h.join().unwrap_or_else(|_| "panic".into()));
        }
    }
    // lockstep phase: all 8 threads are released together for EVERY query; even threads ask for interval k, odd
    // threads for its twin on the opposite strand (same contig, same numeric extent) — calls that overlap in time
    // and differ only in the strand, or not at all
    let twins: Vec<Interval> = ivs
        .iter()
        .map(|iv| {
            let other = match iv.strand() {
                Strand::Positive => Strand::Negative,
                Strand::Negative => Strand::Positive,
            };
            Interval::try_new(
                Coordinate::new(iv.contig().as_str(), other, iv.end().position().get()),
                Coordinate::new(iv.contig().as_str(), other, iv.start().position().get()),
            )
            .unwrap_or_else(|_| iv.clone())
        })
        .collect();
    let m = match machine::Builder.try_build_from(chainfile::Reader::new(&data[..])) {
        Ok(m) => m,
        Err(e) => {
            println!("builderr {}", e);
            return;
        }
    };
    let twin_expected: Vec<String> = twins.iter().map(|iv| answer(&m, iv)).collect();
    drop(m);
    let m = Arc::new(machine::Builder.try_build_from(chainfile::Reader::new(&data[..])).unwrap());
    let twins = Arc::new(twins);
    let twin_expected = Arc::new(twin_expected);
    let barrier = Arc::new(std::sync::Barrier::new(8));
    let threads: Vec<_> = (0..8usize)
        .map(|t| {
            let (m, ivs, twins, expected, twin_expected, barrier) =
                (Arc::clone(&m), Arc::clone(&ivs), Arc::clone(&twins), Arc::clone(&expected), Arc::clone(&twin_expected), Arc::clone(&barrier));
            std::thread::spawn(move || {
                let mut bad: Option<String> = None;
                for _round in 0..20 {
                    for k in 0..ivs.len() {
                        barrier.wait();
                        for _ in 0..3 {
                            let (iv, want) = if t % 2 == 0 { (&ivs[k], &expected[k]) } else { (&twins[k], &twin_expected[k]) };
                            let a = answer(&m, iv);
                            if &a != want && bad.is_none() {
                                bad = Some(format!("lockstep thread {} query {} got [{}] expected [{}]", t, k, a, want));
                            }
                        }
                    }
                }
                bad.unwrap_or_else(|| "ok".to_string())
            })
        })
        .collect();
    for h in threads {
        par.push(h.join().unwrap_or_else(|_| "panic".into()));
    }
    println!("par {}", par.join("|"));
}
