#!/usr/bin/env python3
"""write /verif/seeded/<name>/meta.json from detection.txt + arguments: name property 'needs' 'summary'"""
import json, re, sys, os
name, prop, needs, summary = sys.argv[1:5]
d = "/verif/seeded/" + name
det = open(os.path.join(d, "detection.txt")).read() if os.path.exists(os.path.join(d, "detection.txt")) else ""
found, nofail, silent = [], [], []
for line in det.splitlines():
    m = re.match(r"(C\d+) exit (\d+)(.*)", line)
    if not m:
        continue
    if m.group(2) == "0":
        silent.append(m.group(1))
    elif "no-failing-input-found" in m.group(3):
        nofail.append(m.group(1))
    else:
        found.append(m.group(1))
meta = {
    "breaks_property": prop,
    "summary": summary,
    "needs_to_manifest": needs,
    "origin": "fresh sub-agent given only the text of the property and a scratch git worktree of /repo (nothing from /verif)",
    "confirmed": {
        "how": "tools/verify_seed.sh in the scratch worktree: `cargo test --workspace --offline` with the change (52 unit + 42 doc tests pass), `cargo test --offline --test demo_<id>` with the change (fails) and without it (passes)",
        "existing_suite_with_change": "pass", "demo_with_change": "fail", "demo_without_change": "pass"},
    "checks_run": "tools/try_patch.sh: git -C /repo apply patch.diff; every ./check <id> quick; git -C /repo checkout -- .",
    "detected_with_failing_input_by": sorted(found),
    "reported_as_no_failing_input_found_by": sorted(nofail),
    "silent": sorted(silent),
    "target_property_detected": prop in found,
}
json.dump(meta, open(os.path.join(d, "meta.json"), "w"), indent=1)
print(name, "target detected:", meta["target_property_detected"], "found:", found, "nofail:", nofail)
