#!/bin/sh
# development aid: apply a patch to /repo, run the quick checks named (default: all), undo the patch.
# usage: tools/try_patch.sh file.patch [C01 C02 ...]
cd /verif
patch=$1; shift
props=${*:-C01 C02 C03 C04 C05 C06 C07 C08 C09 C10 C11 C12 C13 C14 C15 C16 C17 C18}
git -C /repo apply "$patch" || { echo "patch does not apply"; exit 2; }
# evidence files describe the UNCHANGED tree: keep them aside while the checks run against a patched one
rm -rf work/evidence.keep; cp -r evidence work/evidence.keep
trap 'git -C /repo checkout -- . ; git -C /repo clean -fdq tests 2>/dev/null; rm -rf evidence; mv work/evidence.keep evidence' EXIT
for p in $props; do
  ( ./check $p quick > work/try_$p.txt 2>&1; echo "$p exit $? $(grep -h 'VIOLATION\|KNOWN' work/try_$p.txt | head -2 | tr '\n' ' ')" ) &
done
wait
