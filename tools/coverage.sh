#!/bin/sh
# development aid: line/region coverage of /repo/src reached by the correspondence requests of one quick run
# (nightly toolchain's llvm-tools; scratch under /tmp/cov, removed at the end)
set -e
cd /verif
rm -rf /tmp/cov; mkdir -p /tmp/cov
CFVERIF_LOG_REQUESTS=/tmp/cov/reqs.txt ./run_all.sh quick | grep -v "exit 0" || true
sort -u /tmp/cov/reqs.txt > /tmp/cov/reqs.u.txt
( cd harness && LLVM_PROFILE_FILE=/tmp/cov/build-%p.profraw RUSTFLAGS="-C instrument-coverage" CARGO_TARGET_DIR=/tmp/cov/target cargo +nightly build --offline --profile ovf 2>&1 | tail -1 )
B=$(ls -d ~/.rustup/toolchains/nightly-x86_64-unknown-linux-gnu/lib/rustlib/*/bin)
LLVM_PROFILE_FILE=/tmp/cov/cf.profraw /tmp/cov/target/ovf/cfimpl < /tmp/cov/reqs.u.txt > /dev/null
$B/llvm-profdata merge -sparse /tmp/cov/cf.profraw -o /tmp/cov/cf.profdata
$B/llvm-cov report /tmp/cov/target/ovf/cfimpl -instr-profile=/tmp/cov/cf.profdata --ignore-filename-regex='(\.cargo|rustc|harness|rustup)' | cut -c1-20,118-250
echo "--- uncovered lines that are not Display/Debug text or trivial accessors:"
$B/llvm-cov show /tmp/cov/target/ovf/cfimpl -instr-profile=/tmp/cov/cf.profdata --ignore-filename-regex='(\.cargo|rustc|harness|rustup)' --show-line-counts-or-regions=false \
  | grep -E "^\s+[0-9]+\|\s+0\|" | grep -v "write!\|fmt(\|match self\|=> write\|                f,\|    }$\|debug_struct\|\.field(\|\.finish()\|pub fn \|self\.[0-9a-z_.()]*$\|&self\.\|)?;$\|^\s*[0-9]*|\s*0|\s*[a-z_, ]*$" || true
rm -rf /tmp/cov
