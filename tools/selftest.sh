#!/bin/sh
# development aid (DESIGN §6.4): every seeded change and every reverted repair must be caught by the check of
# the property it targets, with a concrete failing input. Applies each patch to /repo, runs the target check,
# reverts. Sequential (one /repo). usage: tools/selftest.sh [name ...]
cd /verif
names=${*:-$(ls seeded)}
ok=0; bad=0
# evidence files describe the UNCHANGED tree: keep them aside while the checks run against patched ones
rm -rf work/evidence.keep; cp -r evidence work/evidence.keep
trap 'git -C /repo checkout -- . ; rm -rf evidence; mv work/evidence.keep evidence' EXIT
for n in $names; do
  p=$(python3 -c "import json; print(json.load(open('seeded/$n/meta.json'))['breaks_property'])")
  git -C /repo apply /verif/seeded/$n/patch.diff || { echo "$n: patch does not apply"; bad=$((bad+1)); continue; }
  out=$(./check $p quick 2>/dev/null | grep VIOLATION | head -1)
  git -C /repo checkout -- . ; git -C /repo clean -fdq tests 2>/dev/null
  case "$out" in
    *no-failing-input-found*) echo "$n ($p): only no-failing-input-found"; bad=$((bad+1));;
    *VIOLATION*) echo "$n ($p): detected"; ok=$((ok+1));;
    *) echo "$n ($p): MISSED"; bad=$((bad+1));;
  esac
done
for m in revert-D1D2:C07 revert-D3:C15 revert-D4:C16 revert-D5:C14 revert-D6:C07; do
  f=${m%%:*}; p=${m##*:}
  git -C /repo apply /verif/mutants/$f.patch || continue
  out=$(./check $p quick 2>/dev/null | grep VIOLATION | head -1)
  git -C /repo checkout -- .
  case "$out" in
    *no-failing-input-found*) echo "$f ($p): only no-failing-input-found"; bad=$((bad+1));;
    *VIOLATION*) echo "$f ($p): detected"; ok=$((ok+1));;
    *) echo "$f ($p): MISSED"; bad=$((bad+1));;
  esac
done
echo "selftest: $ok detected, $bad not"
