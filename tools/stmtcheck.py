#!/usr/bin/env python3
"""Compare the statements (everything before ':= by' / ':=' of each theorem, and whole defs) of a
stub file and a delivered file. usage: stmtcheck.py stub.lean delivered.lean"""
import re, sys

def statements(path):
    text = open(path).read()
    text = re.sub(r"/-.*?-/", "", text, flags=re.S)
    text = re.sub(r"--.*", "", text)
    out = {}
    for m in re.finditer(r"^(theorem|def|inductive|structure|instance|abbrev)\s+(\S+)(.*?)(?=^(?:theorem|def|inductive|structure|instance|abbrev|example|end|namespace|open|/--|@\[)\b|\Z)", text, flags=re.S | re.M):
        kind, name, body = m.group(1), m.group(2), m.group(3)
        if kind == "theorem":
            body = re.split(r":=\s*(by\b)?", body, maxsplit=1)[0]
        out[name] = (kind, re.sub(r"\s+", " ", body).strip())
    return out

a, b = statements(sys.argv[1]), statements(sys.argv[2])
ok = True
for name, (kind, body) in a.items():
    if name not in b:
        print("MISSING in delivered:", name); ok = False
    elif b[name] != (kind, body):
        print("CHANGED:", name, "\n  stub:", body[:300], "\n  new :", b[name][1][:300]); ok = False
extra = [n for n in b if n not in a]
if extra:
    print("extra declarations in delivered:", extra)
print("OK" if ok else "MISMATCH")
sys.exit(0 if ok else 1)
