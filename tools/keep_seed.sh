#!/bin/sh
# copy a confirmed seed into /verif/seeded/<name>/ and run all quick checks against it
id=$1; name=${2:-$1}
mkdir -p /verif/seeded/$name
cp ${SEEDBASE:-/tmp/seed}/$id.out/patch.diff /verif/seeded/$name/patch.diff
cp ${SEEDBASE:-/tmp/seed}/$id.out/demo.rs /verif/seeded/$name/demo.rs
cp ${SEEDBASE:-/tmp/seed}/$id.out/notes.md /verif/seeded/$name/notes.md 2>/dev/null
/verif/tools/try_patch.sh /verif/seeded/$name/patch.diff 2>&1 | tee /verif/seeded/$name/detection.txt | grep -v "exit 0"
