#!/usr/bin/env python3
"""development aid: generate simple source mutants of the library (operator flips, off-by-one constants,
dropped `?`-checks, swapped arguments), keep those that compile and pass the existing tests, run every
quick check against each and report the survivors. Works on a PRIVATE copy of the repository
(CFVERIF_REPO) so that it can run next to other work.  usage: mutate.py <repo copy> <verif dir> [max]"""
import json, os, re, subprocess, sys, time

repo, verif = sys.argv[1], sys.argv[2]
maxn = int(sys.argv[3]) if len(sys.argv) > 3 else 10 ** 9
FILES = ["src/reader.rs", "src/line.rs", "src/alignment/section/sections.rs", "src/alignment/section/builder.rs",
         "src/alignment/section/data.rs", "src/alignment/section/header.rs", "src/alignment/section/header/sequence.rs",
         "src/liftover/stepthrough.rs", "src/liftover/stepthrough/interval_pair.rs", "src/liftover/machine.rs",
         "src/liftover/machine/builder.rs"]
SUBS = [(r" < ", " <= "), (r" <= ", " < "), (r" > ", " >= "), (r" >= ", " > "), (r" == ", " != "), (r" != ", " == "),
        (r"\.is_some\(\)", ".is_none()"), (r"\.is_none\(\)", ".is_some()"),
        (r"\bPositive\b", "Negative"), (r"\bNegative\b", "Positive"),
        (r"move_forward", "move_backward"), (r"move_backward", "move_forward"),
        (r"\.dt\(\)", ".dq()"), (r"\.dq\(\)", ".dt()"),
        (r"reference_sequence\(\)", "query_sequence()"), (r"query_sequence\(\)", "reference_sequence()"),
        (r"alignment_start\(\)", "alignment_end()"), (r"alignment_end\(\)", "alignment_start()"),
        (r"\.reference\(\)", ".query()"), (r"\.query\(\)", ".reference()"),
        (r"\.start\(\)", ".end()"), (r"\.end\(\)", ".start()"),
        (r"InBetweenSections", "ReadingSection"), (r"ReadingSection", "InBetweenSections"),
        (r"NonTerminating", "Terminating"), (r"\bTerminating\b", "NonTerminating"),
        (r"\(1\)", "(0)"), (r"\(1\)", "(2)"), (r"\+= 1", "+= 2"), (r"0usize", "1usize"),
        (r"true", "false"), (r"false", "true"),
        (r"\.pop\(\);", ";"), (r"\?;", ";"), (r"return None;", "{}"), (r" && ", " || "), (r" \|\| ", " && "),
        (r"\.min\(", ".max("), (r"\.max\(", ".min("), (r"checked_sub", "checked_add"), (r" - ", " + "), (r" \+ ", " - "),
        (r"\(start, end\)", "(end, start)"), (r"== 0\b", "== 1"), (r"NEW_LINE", "CARRIAGE_RETURN"), (r"CARRIAGE_RETURN", "NEW_LINE"),
        (r"= '\\t'", "= ' '"), (r"= ' '", "= '\\t'"), (r"= 13;", "= 12;"), (r"= 3;", "= 2;"), (r"= 1;", "= 2;"),
        (r"parts\[(\d+)\]", lambda m: "parts[%d]" % (int(m.group(1)) + 1)), (r"parts\[(\d+)\]", lambda m: "parts[%d]" % max(0, int(m.group(1)) - 1)),
        (r"\bstart\b", "stop"), (r"\bstop\b", "start"), (r"Ok\(0\)", "Ok(1)"), (r"\.clone\(\)\.move_forward", ".clone().move_backward"),
        (r"^(\s*)self\.[a-z_]+ (\+)?= [^;]*;\s*$", lambda m: m.group(1) + ";"), (r"^(\s*)[a-z_]+\.push[a-z_]*\([^;]*\);\s*$", lambda m: m.group(1) + ";")]


def code_spans(text):
    """line numbers (0-based) outside comments, doc comments and #[cfg(test)] modules"""
    lines = text.split("\n")
    ok = []
    in_test = False
    for i, l in enumerate(lines):
        if "#[cfg(test)]" in l:
            in_test = True
        st = l.strip()
        if in_test or st.startswith("//") or st.startswith("#[") or "write!(" in l or "Error::" in l and "=>" in l and "write" in l:
            continue
        ok.append(i)
    return lines, ok


def sh(cmd, cwd, timeout=900, env=None):
    e = dict(os.environ)
    if env:
        e.update(env)
    return subprocess.run(cmd, cwd=cwd, shell=True, stdout=subprocess.PIPE, stderr=subprocess.STDOUT, text=True, timeout=timeout, env=e)


mutants = []
for f in FILES:
    text = open(os.path.join(repo, f)).read()
    lines, ok = code_spans(text)
    for i in ok:
        for pat, rep in SUBS:
            for m in re.finditer(pat, lines[i]):
                new = lines[i][:m.start()] + (rep(m) if callable(rep) else rep) + lines[i][m.end():]
                if new != lines[i]:
                    mutants.append((f, i, lines[i].strip(), new.strip(), "\n".join(lines[:i] + [new] + lines[i + 1:])))
print("candidates:", len(mutants), flush=True)
results = []
resume = os.path.join(verif, "work", "mutation_results.json")
if os.path.exists(resume):
    results = json.load(open(resume))
seen = set((r["file"], r["line"], r["new"]) for r in results)
env = {"CFVERIF_REPO": repo, "CARGO_NET_OFFLINE": "true"}
props = "C01 C02 C03 C04 C05 C06 C07 C08 C09 C10 C11 C12 C13 C14 C15 C16 C17 C18".split()
done = 0
step = max(1, len(mutants) // maxn)
for k, (f, i, old, new, text) in enumerate(mutants[::step]):
    if (f, i + 1, new) in seen:
        continue
    path = os.path.join(repo, f)
    orig = open(path).read()
    open(path, "w").write(text)
    try:
        try:
            r = sh("timeout -k 5 240 cargo test --workspace --offline 2>&1 | grep -E '^test result|^error' | head -5", repo, timeout=400)
            passed = r.stdout.count("test result: ok") == 2 and "error" not in r.stdout
        except subprocess.TimeoutExpired:
            passed = False
        sh("pkill -9 -f %s/target/debug/deps/chainfile- || true" % repo, repo)
        if not passed:
            results.append({"file": f, "line": i + 1, "old": old, "new": new, "status": "killed-by-tests-or-compiler"})
            continue
        procs = [(p, subprocess.Popen("./check %s quick" % p, cwd=verif, shell=True, stdout=subprocess.PIPE, stderr=subprocess.STDOUT, text=True, env={**os.environ, **env})) for p in props]
        found, nfi = [], []
        for p, pr in procs:
            out = pr.communicate(timeout=1800)[0]
            if "VIOLATION" in out:
                (nfi if "no-failing-input-found" in out else found).append(p)
        status = "detected" if found else ("correspondence-only" if nfi else "SURVIVED")
        results.append({"file": f, "line": i + 1, "old": old, "new": new, "status": status, "found": found, "nfi": nfi})
        print(status, f, i + 1, "|", old, "=>", new, "| found", found, "nfi", nfi, flush=True)
    finally:
        open(path, "w").write(orig)
    json.dump(results, open(os.path.join(verif, "work", "mutation_results.json"), "w"), indent=1)
print("done", flush=True)
