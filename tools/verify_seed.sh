#!/bin/sh
# confirm a seeded change in its scratch worktree /tmp/seed/<ID>: existing suite passes with the change,
# the demonstration fails with it and passes without it. Leaves the worktree with the change applied.
id=$1
base=${SEEDBASE:-/tmp/seed}
w=$base/$id
o=$base/$id.out
cd $w || exit 2
git checkout -q -- . ; rm -f tests/demo_$id.rs
git apply $o/patch.diff || { echo "patch does not apply"; exit 2; }
echo "--- existing suite WITH the change"
cargo test --workspace --offline 2>&1 | grep -E "^test result|error(\[|:)|FAILED" | head -5
mkdir -p tests; cp $o/demo.rs tests/demo_$id.rs
echo "--- demo WITH the change (must fail)"
cargo test --offline --test demo_$id 2>&1 | grep -E "^test result|error(\[|:)" | head -3
git apply -R $o/patch.diff
echo "--- demo WITHOUT the change (must pass)"
cargo test --offline --test demo_$id 2>&1 | grep -E "^test result|error(\[|:)" | head -3
git apply $o/patch.diff
