#!/bin/sh
# development aid: run every quick (or thorough) check in parallel
cd "$(dirname "$0")"
tier=${1:-quick}
for p in C01 C02 C03 C04 C05 C06 C07 C08 C09 C10 C11 C12 C13 C14 C15 C16 C17 C18; do
  ( ./check $p $tier > work/out_$p.txt 2>&1; echo "$p exit $?" ) &
done
wait
