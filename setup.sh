#!/bin/sh
# Offline build of the framework from files on disk: Lean model + proofs + driver, Rust harness.
set -e
cd "$(dirname "$0")"
export CARGO_NET_OFFLINE=true
mkdir -p work evidence replays
( cd lean && lake build CF cfdriver )
cp /repo/Cargo.lock harness/Cargo.lock
( cd harness && cargo build --offline --profile ovf && cargo build --offline --profile wrap )
if [ -d harness/sendsync ]; then
  cp /repo/Cargo.lock harness/sendsync/Cargo.lock
  ( cd harness/sendsync && cargo build --offline ) || true
fi
echo "setup ok"
