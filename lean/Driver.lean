/-
  `cfdriver`: one request line in, one reply line out. Evaluates the executable model
  definitions (the same ones the theorems are about) — DESIGN §3.2.
-/
import CF.Model.Machine
import CF.Model.Ops
import CF.Spec.Judges
import CF.Spec.Canon
import CF.Codec
open CF CF.Codec

def lineReply (bs : List UInt8) : String :=
  match Line.parse bs with
  | .error (.header _) => "err header"
  | .error (.data _) => "err data"
  | .ok l =>
    match l.print with
    | .ok p => s!"ok {lineStr l} print={hexOf p} eq={match Line.parse p with | .ok l2 => decide (l2 = l) | .error _ => false}"
    | .err _ => "ok " ++ lineStr l ++ " print=err"
    | .panic s => s!"panic {s}"

def recNewReply (size : Nat) (dt dq : Option Nat) (k : Kind) : String :=
  match Rec.tryNew size dt dq k with
  | .error .nontermDt => "err nontermDt"
  | .error .nontermDq => "err nontermDq"
  | .error .termDt => "err termDt"
  | .error .termDq => "err termDq"
  | .error _ => "err other"
  | .ok r =>
    match r.print with
    | .ok p => s!"ok {recStr r} print={hexOf p}"
    | .err _ => "ok " ++ recStr r ++ " print=err"
    | .panic s => s!"panic {s}"

def seqReply (a b c d e : List UInt8) : String :=
  match Seq.ofParts a b c d e with
  | .error (.parse _) => "err parse"
  | .error .startGtEnd => "err order"
  | .error (.interval _) => "err interval"
  | .ok s =>
    let iv := match s.interval with
      | .ok i => ivStr i
      | .error (.interval .outOfBounds) => "err_oob"
      | .error _ => "err_other"
    s!"ok {seqStr s} iv={iv}"

def withIv (s : String) (k : Interval → String) : String :=
  match ivOf s with
  | none => "badreq"
  | some (.error _) => "badiv"
  | some (.ok i) => k i

def pairErrStr : PairErr → String
  | .counts _ _ => "err counts"
  | .interval .clampContig => "err contig"
  | .interval .clampStrand => "err strand"
  | .interval _ => "err interval"

def withPair (r q : String) (k : Pair → String) : String :=
  withIv r fun r => withIv q fun q =>
    match Pair.tryNew r q with
    | .error e => pairErrStr e
    | .ok p => k p

def clampReply (p : Pair) (iv : Interval) : String :=
  match p.clamp iv with
  | .ok p' => s!"ok {pairStr p'}"
  | .err e => pairErrStr e
  | .panic _ => "panic"

/-- clamp, then lift coordinates through the clamped pair -/
def clampLiftReply (p : Pair) (iv : Interval) (cs : List String) : String :=
  match p.clamp iv with
  | .ok p' =>
    match cs.mapM coordOf with
    | none => "badreq"
    | some cs => join " ; " (s!"ok {pairStr p'}" :: cs.map (fun c =>
        match p'.lift c with | none => "none" | some c' => s!"some {coordStr c'}"))
  | .err e => pairErrStr e
  | .panic _ => "panic"

def lapperReply (args : List String) : String :=
  match args with
  | s :: e :: ivs =>
    match s.toNat?, e.toNat?, ivs.mapM (fun t => match t.splitOn "-" with
        | [a, b] => (match a.toNat?, b.toNat? with | some a, some b => some (a, b) | _, _ => none)
        | _ => none) with
    | some s, some e, some ivs =>
      let items : List (Lap.Iv Nat) := (ivs.zipIdx).map (fun (p, i) => ⟨p.1, p.2, i⟩)
      match (Lap.Lapper.new items).find s e with
      | none => "panic"
      | some hits => "ids" ++ String.join (hits.map (fun h => s!" {h.val}"))
    | _, _, _ => "badreq"
  | _ => "badreq"

def rawResStr : RawRes → String
  | .line n t => s!"L{n}:{hexOf t}"
  | .io => "io"
  | .utf8 => "utf8"

def rawReply (src : List Ev) : String :=
  join " " ((rawLines validUtf8 src).map rawResStr ++ ["eof"])

def linesItem (r : RawRes) : String :=
  match r with
  | .io => "io"
  | .utf8 => "utf8"
  | .line _ t => match Line.parse t with | .ok l => lineStr l | .error _ => "err"

def linesReply (src : List Ev) : String :=
  join " ; " ((rawLines validUtf8 src).map linesItem ++ ["eof"])

def capEnd (xs : List String) (cap : Nat) (ended : Bool) : List String :=
  if ended then xs else if xs.length ≥ cap then xs ++ ["cap"] else xs

/-- drain up to `cap` calls; the last token is `done`, `panic …` or `cap` -/
def sectionsReply (src : List Ev) (cap : Nat) : String :=
  let outs := SecIt.drain cap SecIt.new ((rawLines validUtf8 src).map Raw.ofRes)
  let strs := outs.map out3Str
  let ended := match outs.getLast? with | some .done => true | some (.panic _) => true | _ => false
  join " ; " (if ended then strs else strs ++ ["cap"])

def stepDrainStr (it : StepIt) (cap : Nat) : String :=
  let items := it.drain cap
  let strs := items.map (fun x => match x with
    | .ok (p, r) => s!"P {pairStr p} | {recStr r}"
    | .error e => stErrStr e)
  join " ; " ((if items.length ≥ cap then strs ++ ["cap"] else strs ++ ["done"]) ++ ["plain=ok"])

def stepReply (hdr : List UInt8) (recs : List (List UInt8)) (cap : Nat) : String :=
  match Hdr.parse hdr, recs.mapM (fun r => match Rec.parse r with | .ok r => some r | .error _ => none) with
  | .ok h, some rs =>
    if rs = [] then "badinput" else
    match StepIt.new ⟨h, rs⟩ with
    | .error _ => "new_err seq"
    | .ok it => stepDrainStr it cap
  | _, _ => "badinput"

def sortDict (d : List (List UInt8 × Nat)) : String :=
  let strs := d.map (fun (n, s) => s!"{hexOf n}:{s}")
  "[" ++ join "," (strs.toArray.qsort (· < ·)).toList ++ "]"

def buildErrStr : BuildErr → String
  | .sections e => "err sections " ++ secErrStr e
  | .step e => "err step " ++ stErrStr e
  | .sizeConflict _ _ _ => "err conflict"

def buildStr : Out BuildErr Machine → String
  | .ok m => s!"ok ref={sortDict m.refDict} qry={sortDict m.qryDict}"
  | .err e => buildErrStr e
  | .panic s => s!"panic {s}"

def liftStr (m : Machine) (iv : String) : String :=
  withIv iv fun iv =>
    match m.liftover iv with
    | .ok none => "none"
    | .ok (some ps) => "some" ++ String.join (ps.map (fun p => " " ++ pairStr p))
    | .err _ => "err"
    | .panic s => s!"panic {s}"

/-- results fed back into the pair API (see the harness' `thru_str`) -/
def thruStr (m : Machine) (iv : String) : String :=
  withIv iv fun iv =>
    match m.liftover iv with
    | .ok none => "none"
    | .ok (some ps) => "some " ++ join " | " (ps.map (fun p =>
        let a := match p.lift p.ref.start with | some c => coordStr c | none => "none"
        let b := match p.lift p.ref.stop with | some c => coordStr c | none => "none"
        let again := match p.clamp iv with
          | .ok p2 => pairStr p2
          | .err e => (pairErrStr e).replace " " "_"
          | .panic _ => "panic"
        s!"{pairStr p} {a} {b} {again}"))
    | .err _ => "err"
    | .panic s => s!"panic {s}"

def liftthruReply (src : List Ev) (ivs : List String) : String :=
  let b := build validUtf8 src
  match b with
  | .ok m => join " ; " (buildStr b :: ivs.map (thruStr m))
  | _ => buildStr b

def liftoverReply (src : List Ev) (ivs : List String) : String :=
  let b := build validUtf8 src
  match b with
  | .ok m => join " ; " (buildStr b :: ivs.map (liftStr m))
  | _ => buildStr b

def rdErrStr : RdErr → String | .io => "io" | .utf8 => "utf8" | .parse => "err"

def obsStr : Obs → String
  | .raw none => "eof"
  | .raw (some r) => rawResStr r
  | .line (.ok none) => "none"
  | .line (.ok (some l)) => "ok " ++ lineStr l
  | .line (.error e) => "err " ++ rdErrStr e
  | .lines items => "lines" ++ String.join (items.map (fun i => " / " ++ (match i with
      | none => "eof" | some (.ok l) => lineStr l | some (.error e) => rdErrStr e)))
  | .secs items => "secs" ++ String.join (items.map (fun i => " / " ++ out3Str i))

def opOf (s : String) : Option ReaderOp :=
  if s = "raw" then some .raw
  else if s = "line" then some .line
  else if s.startsWith "lines" then ((s.drop 5).toString.toNat?).map .lines
  else if s.startsWith "secs" then ((s.drop 4).toString.toNat?).map .secs
  else none

def opsReply (src : List Ev) (ops : List ReaderOp) : String :=
  join " ; " ((Ops.run ops (rawLines validUtf8 src)).1.map obsStr)

/-- re-serialise all sections of a stream canonically (`canonBytes`, the object of theorem `C13_file`) -/
def reserReply (src : List Ev) : String :=
  match Judges.secsOf (Judges.specOf src) with
  | some ss => "ok " ++ hexOf (canonBytes ss) ++ s!" eq={Judges.secsOf (Judges.specOf [.chunk (canonBytes ss)]) == some ss}"
  | none => "err"

def handle (line : String) : String :=
  match line.trimAscii.toString.splitOn " " with
  | ["line", h] => match unhex h with | some bs => lineReply bs | none => "badreq"
  | ["rec_new", s, dt, dq, k] =>
    (match s.toNat?, optOf dt, optOf dq, kindOf k with
     | some s, some dt, some dq, some k => recNewReply s dt dq k
     | _, _, _, _ => "badreq")
  | ["seq", a, b, c, d, e] =>
    (match unhex a, unhex b, unhex c, unhex d, unhex e with
     | some a, some b, some c, some d, some e => seqReply a b c d e
     | _, _, _, _, _ => "badreq")
  | ["pair_new", r, q] => withPair r q fun p => s!"ok {pairStr p}"
  | ["pair_lift", r, q, c] =>
    withPair r q fun p => match coordOf c with
      | none => "badreq"
      | some c => match p.lift c with | none => "none" | some c' => s!"some {coordStr c'}"
  | ["pair_clamp", r, q, iv] => withPair r q fun p => withIv iv fun iv => clampReply p iv
  | ["pair_clamp_lift", r, q, iv, cs] => withPair r q fun p => withIv iv fun iv => clampLiftReply p iv (cs.splitOn ",")
  | "lapper" :: args => lapperReply args
  | ["raw", src] => match srcOf src with | some s => rawReply s | none => "badreq"
  | ["lines", src] => match srcOf src with | some s => linesReply s | none => "badreq"
  | ["sections", src, cap] =>
    (match srcOf src, cap.toNat? with | some s, some c => sectionsReply s c | _, _ => "badreq")
  | ["step", hdr, recs, cap] =>
    (match unhex hdr, (recs.splitOn ",").mapM unhex, cap.toNat? with
     | some h, some rs, some c => stepReply h rs c
     | _, _, _ => "badreq")
  | ["reser", src] => match srcOf src with | some s => reserReply s | none => "badreq"
  | ["num", h] => (match unhex h with
      | some bs => (match parseU64 bs with | some n => s!"ok {n}" | none => "err")
      | none => "badreq")
  | ["build", src] => match srcOf src with | some s => buildStr (build validUtf8 s) | none => "badreq"
  | ["liftover", src, ivs] =>
    (match srcOf src with | some s => liftoverReply s (ivs.splitOn ",") | none => "badreq")
  | ["liftthru", src, ivs] =>
    (match srcOf src with | some s => liftthruReply s (ivs.splitOn ",") | none => "badreq")
  | ["ops", src, ops] =>
    -- `reopen` (into_inner + Reader::new) is the identity on the model's reader state: the cursor is the stream's
    (match srcOf src, ((ops.splitOn ",").filter (· != "reopen")).mapM opOf with
     | some s, some ops => opsReply s ops
     | _, _ => "badreq")
  | "spec" :: rest => Judges.handle rest
  | _ => "badreq"

partial def loop (hin hout : IO.FS.Stream) : IO Unit := do
  let line ← hin.getLine
  if line.isEmpty then return ()
  hout.putStrLn (handle line)
  hout.flush
  loop hin hout

def main : IO Unit := do loop (← IO.getStdin) (← IO.getStdout)
