/-
  Model of `liftover::machine::{Builder, Machine}`.

  The builder's `HashMap<Contig, Vec<Iv>>` (push in file order under the pair's reference contig)
  is modelled by the list of all blocks in file order, the entry for a contig being the blocks
  with that reference contig; dictionaries are association lists in first-insertion order (only
  lookups and sorted dumps are observable).
-/
import CF.Model.Step
import CF.Model.Lapper
namespace CF
open Lap

inductive BuildErr
  | sections (e : SecErr) | step (e : StErr) | sizeConflict (name : List UInt8) (old new : Nat)
deriving DecidableEq, Repr

structure Machine where
  blocks : List Pair
  refDict : List (List UInt8 × Nat)
  qryDict : List (List UInt8 × Nat)
deriving Repr, DecidableEq

def Machine.empty : Machine := ⟨[], [], []⟩

/-- `ChromosomeDictionaryBuilder::update` (with repair D4: a conflict is an error). -/
def dictUpdate (d : List (List UInt8 × Nat)) (name : List UInt8) (size : Nat) :
    Except BuildErr (List (List UInt8 × Nat)) :=
  match d.lookup name with
  | some ex => if ex = size then .ok d else .error (.sizeConflict name ex size)
  | none => .ok (d ++ [(name, size)])

/-- `for pair_result in section.stepthrough()? { let pair = pair_result?; … }` collected:
    all the pairs, or the first error. -/
def collectPairs : List Item → Except StErr (List Pair)
  | [] => .ok []
  | .error e :: _ => .error e
  | .ok (p, _) :: rest =>
    match collectPairs rest with
    | .ok ps => .ok (p :: ps)
    | .error e => .error e

/-- the body of the builder's loop for one section -/
def Machine.addSection (m : Machine) (s : Sec) : Except BuildErr Machine :=
  match dictUpdate m.qryDict s.hdr.qry.name s.hdr.qry.size with
  | .error e => .error e
  | .ok qd =>
    match dictUpdate m.refDict s.hdr.ref.name s.hdr.ref.size with
    | .error e => .error e
    | .ok rd =>
      match StepIt.new s with
      | .error e => .error (.step e)
      | .ok it =>
        match collectPairs (it.drain (s.data.length + 2)) with
        | .error e => .error (.step e)
        | .ok ps => .ok ⟨m.blocks ++ ps, rd, qd⟩

/-- `Builder::try_build_from`: `for result in reader.sections()`; `fuel` bounds the number of
    `next()` calls (`lines + 2` suffices, see `build_fuel`). -/
def buildLoop : Nat → SecIt → List Raw → Machine → Out BuildErr Machine
  | 0, _, _, _ => .panic "model_fuel"
  | f+1, it, ls, m =>
    match it.next ls with
    | (.done, _, _) => .ok m
    | (.panic s, _, _) => .panic s
    | (.item (.error e), _, _) => .err (.sections e)
    | (.item (.ok sec), it', ls') =>
      match m.addSection sec with
      | .error e => .err e
      | .ok m' => buildLoop f it' ls' m'

def buildL (ls : List Raw) : Out BuildErr Machine := buildLoop (ls.length + 2) SecIt.new ls Machine.empty

def build (validUtf8 : List UInt8 → Bool) (s : List Ev) : Out BuildErr Machine :=
  buildL ((rawLines validUtf8 s).map Raw.ofRes)

/-- the builder's index entry for a pair: forward `[lo, hi)` of its reference, on both strands -/
def blockIv (p : Pair) : Iv Pair := ⟨p.ref.lo, p.ref.hi, p⟩

/-- `self.inner.get(contig)`: present iff some block has that reference contig -/
def Machine.entry (m : Machine) (c : List UInt8) : Option (Lapper Pair) :=
  match m.blocks.filter (fun p => decide (p.ref.contig = c)) with
  | [] => none
  | bs => some (Lapper.new (bs.map blockIv))

/-- `.map(|pair| pair.clamp(interval.clone()).unwrap())` collected; the first failure is the panic -/
def clampAll (iv : Interval) : List Pair → Out Unit (List Pair)
  | [] => .ok []
  | p :: ps =>
    match p.clamp iv with
    | .ok c =>
      (match clampAll iv ps with
       | .ok cs => .ok (c :: cs)
       | .err e => .err e
       | .panic s => .panic s)
    | .err _ => .panic "machine_clamp_unwrap"
    | .panic s => .panic s

/-- `Machine::liftover`. -/
def Machine.liftover (m : Machine) (iv : Interval) : Out Unit (Option (List Pair)) :=
  match m.entry iv.contig with
  | none => .ok none
  | some lp =>
    match lp.find iv.lo iv.hi with
    | none => .panic "lapper_probe_index"
    | some hits =>
      match clampAll iv ((hits.map (·.val)).filter (fun p => decide (p.ref.strand = iv.strand))) with
      | .ok [] => .ok none
      | .ok rs => .ok (some rs)
      | .err e => .err e
      | .panic s => .panic s

end CF
