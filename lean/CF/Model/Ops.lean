/-
  Model of histories of `Reader` calls (C17): `read_line_raw`, `read_line`, `lines()`,
  `sections()`; the reader's state is the list of raw line results still to be read.
-/
import CF.Model.Sections
namespace CF

inductive RdErr | io | utf8 | parse
deriving DecidableEq, Repr

inductive ReaderOp
  | raw                 -- one `read_line_raw`
  | line                -- one `read_line`
  | lines (k : Nat)     -- a fresh `lines()` iterator, `k` calls of `next()`
  | secs (k : Nat)      -- a fresh `sections()` iterator, `k` calls of `next()`
deriving DecidableEq, Repr

inductive Obs
  | raw (r : Option RawRes)
  | line (r : Except RdErr (Option Line))
  | lines (items : List (Option (Except RdErr Line)))
  | secs (items : List Out3)
deriving Repr

/-- `Reader::read_line` -/
def readLine : List RawRes → Except RdErr (Option Line) × List RawRes
  | [] => (.ok none, [])
  | .io :: rest => (.error .io, rest)
  | .utf8 :: rest => (.error .utf8, rest)
  | .line _ t :: rest =>
    match Line.parse t with
    | .ok l => (.ok (some l), rest)
    | .error _ => (.error .parse, rest)

/-- `k` calls of `next()` on one `lines()` iterator (`iter::from_fn`, not fused) -/
def linesNext : Nat → List RawRes → List (Option (Except RdErr Line)) × List RawRes
  | 0, rs => ([], rs)
  | k+1, rs =>
    match readLine rs with
    | (.ok none, rs') => let (xs, r) := linesNext k rs'; (none :: xs, r)
    | (.ok (some l), rs') => let (xs, r) := linesNext k rs'; (some (.ok l) :: xs, r)
    | (.error e, rs') => let (xs, r) := linesNext k rs'; (some (.error e) :: xs, r)

/-- one `next()` of a section iterator on the shared cursor -/
def secsNext1 (it : SecIt) (rs : List RawRes) : Out3 × SecIt × List RawRes :=
  let r := it.next (rs.map Raw.ofRes)
  (r.1, r.2.1, rs.drop (rs.length - r.2.2.length))

/-- `k` calls of `next()` on one `sections()` iterator; stops at a panic -/
def secsNext : Nat → SecIt → List RawRes → List Out3 × List RawRes
  | 0, _, rs => ([], rs)
  | k+1, it, rs =>
    match secsNext1 it rs with
    | (.panic s, _, rs') => ([.panic s], rs')
    | (x, it', rs') => let (xs, r) := secsNext k it' rs'; (x :: xs, r)

def Ops.step (op : ReaderOp) (rs : List RawRes) : Obs × List RawRes :=
  match op with
  | .raw => (match rs with | [] => (.raw none, []) | r :: rest => (.raw (some r), rest))
  | .line => let (x, r) := readLine rs; (.line x, r)
  | .lines k => let (x, r) := linesNext k rs; (.lines x, r)
  | .secs k => let (x, r) := secsNext k SecIt.new rs; (.secs x, r)

def Ops.run : List ReaderOp → List RawRes → List Obs × List RawRes
  | [], rs => ([], rs)
  | op :: ops, rs =>
    let (o, rs') := Ops.step op rs
    let (os, r) := Ops.run ops rs'
    (o :: os, r)

end CF
