/-
  Model of `alignment::section::header::{Sequence, Record}`, `alignment::section::data::Record`
  and `line::Line`: parsing (`FromStr`) and printing (`Display`).
-/
import CF.Model.Text
namespace CF

/-- `Strand::from_str`: exactly "+" or "-". -/
def Strand.parse (s : List UInt8) : Option Strand :=
  match s with
  | [43] => some .pos
  | [45] => some .neg
  | _ => none

def Strand.print : Strand → List UInt8
  | .pos => [43]
  | .neg => [45]

/-- `header::Sequence`. -/
structure Seq where
  name : List UInt8
  size : Nat
  strand : Strand
  start : Nat
  stop : Nat
deriving DecidableEq, Repr

inductive SeqErr | parse (field : Nat) | startGtEnd | interval (e : IvErr)
deriving DecidableEq, Repr

/-- `Sequence::try_from_str_parts`. -/
def Seq.ofParts (name size strand start stop : List UInt8) : Except SeqErr Seq :=
  match parseU64 size with
  | none => .error (.parse 0)
  | some sz =>
    match Strand.parse strand with
    | none => .error (.parse 1)
    | some st =>
      match parseU64 start with
      | none => .error (.parse 2)
      | some a =>
        match parseU64 stop with
        | none => .error (.parse 3)
        | some b => if a > b then .error .startGtEnd else .ok ⟨name, sz, st, a, b⟩

/-- `Sequence::interval()` with repair D5 (checked subtraction ⇒ `Err(Interval(OutOfBounds))`). -/
def Seq.interval (s : Seq) : Except SeqErr Interval :=
  match s.strand with
  | .pos => (Interval.tryNew ⟨s.name, .pos, s.start⟩ ⟨s.name, .pos, s.stop⟩).mapError .interval
  | .neg =>
    if s.start ≤ s.size ∧ s.stop ≤ s.size then
      (Interval.tryNew ⟨s.name, .neg, s.size - s.start⟩ ⟨s.name, .neg, s.size - s.stop⟩).mapError .interval
    else .error (.interval .outOfBounds)

def Seq.print (s : Seq) : List UInt8 :=
  s.name ++ SP :: printNat s.size ++ SP :: s.strand.print ++ SP :: printNat s.start ++ SP :: printNat s.stop

/-- `header::Record`. -/
structure Hdr where
  score : Nat
  ref : Seq
  qry : Seq
  id : Nat
deriving DecidableEq, Repr

inductive HdrErr | fields (n : Nat) | prefix | score | refSeq (e : SeqErr) | qrySeq (e : SeqErr) | id
  | endExceedsSize (ref : Bool)
deriving DecidableEq, Repr

/-- `header::Record::from_str`. -/
def Hdr.parse (s : List UInt8) : Except HdrErr Hdr :=
  match splitOn SP s with
  | [p0, p1, p2, p3, p4, p5, p6, p7, p8, p9, p10, p11, p12] =>
    if p0 ≠ CHAIN then .error .prefix else
    match parseU64 p1 with
    | none => .error .score
    | some score =>
      match Seq.ofParts p2 p3 p4 p5 p6 with
      | .error e => .error (.refSeq e)
      | .ok r =>
        match Seq.ofParts p7 p8 p9 p10 p11 with
        | .error e => .error (.qrySeq e)
        | .ok q =>
          match parseU64 p12 with
          | none => .error .id
          | some id =>
            if r.size < r.stop then .error (.endExceedsSize true)
            else if q.size < q.stop then .error (.endExceedsSize false)
            else .ok ⟨score, r, q, id⟩
  | parts => .error (.fields parts.length)

def Hdr.print (h : Hdr) : List UInt8 :=
  CHAIN ++ SP :: printNat h.score ++ SP :: h.ref.print ++ SP :: h.qry.print ++ SP :: printNat h.id

inductive Kind | term | nonterm
deriving DecidableEq, Repr

/-- `data::Record`. -/
structure Rec where
  size : Nat
  dt : Option Nat
  dq : Option Nat
  kind : Kind
deriving DecidableEq, Repr

inductive RecErr | nontermDt | nontermDq | termDt | termDq | fields (n : Nat) | size | dt | dq
deriving DecidableEq, Repr

/-- `data::Record::try_new`. -/
def Rec.tryNew (size : Nat) (dt dq : Option Nat) (kind : Kind) : Except RecErr Rec :=
  match kind with
  | .nonterm =>
    if dt.isNone then .error .nontermDt
    else if dq.isNone then .error .nontermDq
    else .ok ⟨size, dt, dq, kind⟩
  | .term =>
    if dt.isSome then .error .termDt
    else if dq.isSome then .error .termDq
    else .ok ⟨size, dt, dq, kind⟩

/-- `data::Record::from_str`. -/
def Rec.parse (s : List UInt8) : Except RecErr Rec :=
  match splitOn TAB s with
  | [p0] =>
    (match parseU64 p0 with
     | none => .error .size
     | some sz => Rec.tryNew sz none none .term)
  | [p0, p1, p2] =>
    (match parseU64 p0 with
     | none => .error .size
     | some sz =>
       match parseU64 p1 with
       | none => .error .dt
       | some dt =>
         match parseU64 p2 with
         | none => .error .dq
         | some dq => Rec.tryNew sz (some dt) (some dq) .nonterm)
  | parts => .error (.fields parts.length)

/-- `Display for data::Record`; the two `expect`s are panic sites. -/
def Rec.print (r : Rec) : Out Unit (List UInt8) :=
  match r.kind with
  | .term => .ok (printNat r.size)
  | .nonterm =>
    match r.dt with
    | none => .panic "record_display_dt"
    | some dt =>
      match r.dq with
      | none => .panic "record_display_dq"
      | some dq => .ok (printNat r.size ++ TAB :: printNat dt ++ TAB :: printNat dq)

/-- `line::Line`. -/
inductive Line | empty | header (h : Hdr) | data (r : Rec)
deriving DecidableEq, Repr

inductive LineErr | header (e : HdrErr) | data (e : RecErr)
deriving DecidableEq, Repr

/-- `Line::from_str`. -/
def Line.parse (s : List UInt8) : Except LineErr Line :=
  if s = [] then .ok .empty
  else if isPrefix CHAIN s then
    match Hdr.parse s with
    | .ok h => .ok (.header h)
    | .error e => .error (.header e)
  else
    match Rec.parse s with
    | .ok r => .ok (.data r)
    | .error e => .error (.data e)

/-- `Display for Line`. -/
def Line.print : Line → Out Unit (List UInt8)
  | .empty => .ok []
  | .header h => .ok h.print
  | .data r => r.print

end CF
