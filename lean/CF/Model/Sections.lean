/-
  Model of `Reader::read_line`, `alignment::section::sections::{Sections, get_state}` and
  `alignment::section::Builder`, over the list of raw line results still to be read.
-/
import CF.Model.Record
import CF.Model.Source
namespace CF

/-- result of one `Reader::read_line()` call that returned something -/
inductive Raw | line (l : Line) | unparsable (text : List UInt8) | io
deriving DecidableEq, Repr

/-- `Reader::read_line` on the raw result: I/O and UTF-8 failures are `Error::Io`,
    a line that does not parse is `Error::Line`. -/
def Raw.ofRes : RawRes → Raw
  | .io => .io
  | .utf8 => .io
  | .line _ text =>
    match Line.parse text with
    | .ok l => .line l
    | .error _ => .unparsable text

/-- `alignment::Section` (`NonEmpty` is established by `go`; see `Sec.data_ne_nil`). -/
structure Sec where
  hdr : Hdr
  data : List Rec
deriving DecidableEq, Repr

inductive SecErr
  | abruptEnd | blank (n : Nat) | dataBetween (r : Rec) | headerIn (h : Hdr)
  | unparsable (t : List UInt8) | io | builderMissingData
deriving DecidableEq, Repr

inductive St | between | reading
deriving DecidableEq, Repr

/-- the iterator's own state (`state`, `line_no`); the reader is the list of remaining lines -/
structure SecIt where
  st : St
  lineNo : Nat
deriving DecidableEq, Repr

inductive Out3 | item (x : Except SecErr Sec) | done | panic (site : String)
deriving Repr

/-- `get_state`. -/
def getState (st : St) (l : Line) (n : Nat) : Except SecErr St :=
  match st, l with
  | .between, .empty => .ok .between
  | .between, .header _ => .ok .reading
  | .between, .data r => .error (.dataBetween r)
  | .reading, .empty => .error (.blank n)
  | .reading, .header h => .error (.headerIn h)
  | .reading, .data r => match r.kind with | .nonterm => .ok .reading | .term => .ok .between

/-- one call of `Sections::next()` (with repair D1/D2: every error return resets the state).
    `b` is the local `builder` (header, data pushed so far); the recursion is the `loop`, on the
    remaining raw lines. The `line_no` quirk (an unparsable line or a reader error returns before
    `line_no += 1`) is mirrored. -/
def SecIt.go (b : Option (Hdr × List Rec)) (it : SecIt) : List Raw → Out3 × SecIt × List Raw
  | [] =>
    let it := { it with lineNo := it.lineNo + 1 }
    match it.st with
    | .between => (.done, it, [])
    | .reading => (.item (.error .abruptEnd), { it with st := .between }, [])
  | .io :: rest => (.item (.error .io), { it with st := .between }, rest)
  | .unparsable t :: rest => (.item (.error (.unparsable t)), { it with st := .between }, rest)
  | .line l :: rest =>
    let it := { it with lineNo := it.lineNo + 1 }
    match getState it.st l it.lineNo with
    | .error e => (.item (.error e), { it with st := .between }, rest)
    | .ok st' =>
      let it := { it with st := st' }
      let b' : Except String (Option (Hdr × List Rec)) :=
        match b, l with
        | some (h, ds), .data r => .ok (some (h, ds ++ [r]))
        | some x, .empty => .ok (some x)
        | some _, .header _ => .error "sections_header_with_builder"
        | none, .data _ => .error "sections_data_without_builder"
        | none, .empty => .ok none
        | none, .header h => .ok (some (h, []))
      match b' with
      | .error site => (.panic site, it, rest)
      | .ok b'' =>
        match st', b'' with
        | .between, some (h, ds) =>
          (match ds with
           | [] => (.item (.error .builderMissingData), it, rest)
           | _ => (.item (.ok ⟨h, ds⟩), it, rest))
        | _, _ => SecIt.go b'' it rest

def SecIt.new : SecIt := ⟨.between, 0⟩

def SecIt.next (it : SecIt) (ls : List Raw) := SecIt.go none it ls

/-- `fuel` calls of `next()`, stopping at `None` (kept as `.done`) or at a panic. -/
def SecIt.drain : Nat → SecIt → List Raw → List Out3
  | 0, _, _ => []
  | f+1, it, ls =>
    match it.next ls with
    | (.done, _, _) => [.done]
    | (.panic s, _, _) => [.panic s]
    | (x, it', ls') => x :: SecIt.drain f it' ls'

end CF
