/-
  Model of the `std` text primitives the crate leans on, over UTF-8 bytes:
  `u64::from_str` / `usize::from_str`, `Display for u64`, `str::split(char)`, `starts_with`.
  (usize is modelled as u64.)
-/
import CF.Model.Basic
namespace CF

def isDigit (b : UInt8) : Bool := decide (48 ≤ b.toNat) && decide (b.toNat ≤ 57)
def digitVal (b : UInt8) : Nat := b.toNat - 48
def digitChar (d : Nat) : UInt8 := UInt8.ofNat (48 + d)

/-- value of a digit string, most significant first (accumulator style, as Rust's
    `from_str_radix`); `none` on a non-digit. -/
def valAcc (acc : Nat) : List UInt8 → Option Nat
  | [] => some acc
  | b :: bs => if isDigit b then valAcc (acc * 10 + digitVal b) bs else none

/-- unbounded numeral: optional single leading `+`, then ≥ 1 ASCII digit. -/
def parseNat (s : List UInt8) : Option Nat :=
  match s with
  | [] => none
  | [43] => none           -- "+"
  | 43 :: rest => valAcc 0 rest
  | _ => valAcc 0 s

/-- `u64::from_str`: overflow is an error. (Rust checks at every step; the prefix values are
    monotone, so checking the final value is equivalent as far as Ok/Err goes.) -/
def parseU64 (s : List UInt8) : Option Nat :=
  match parseNat s with
  | some v => if v ≤ U64_MAX then some v else none
  | none => none

/-- `Display for u64`: digits, most significant first, no sign, no padding. -/
def printNat (n : Nat) : List UInt8 :=
  if n < 10 then [digitChar n] else printNat (n / 10) ++ [digitChar (n % 10)]
termination_by n
decreasing_by omega

/-- `str::split(sep)` collected: keeps empty fields, never returns an empty list. -/
def splitOn (sep : UInt8) : List UInt8 → List (List UInt8)
  | [] => [[]]
  | b :: bs =>
    if b = sep then [] :: splitOn sep bs
    else match splitOn sep bs with
      | [] => [[b]]
      | f :: fs => (b :: f) :: fs

/-- `str::starts_with(prefix)`. -/
def isPrefix : List UInt8 → List UInt8 → Bool
  | [], _ => true
  | _ :: _, [] => false
  | p :: ps, b :: bs => p == b && isPrefix ps bs

def SP : UInt8 := 32
def TAB : UInt8 := 9
def LF : UInt8 := 10
def CR : UInt8 := 13
/-- `"chain"` -/
def CHAIN : List UInt8 := [99, 104, 97, 105, 110]

/-- join fields with a separator byte -/
def joinWith (sep : UInt8) : List (List UInt8) → List UInt8
  | [] => []
  | [f] => f
  | f :: fs => f ++ sep :: joinWith sep fs

end CF
