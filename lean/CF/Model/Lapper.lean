/-
  Model of `rust-lapper 1.3.0` (the locked version): `Lapper::new`, `lower_bound`,
  `find` + `IterFind::next`. Generic in the payload.
-/
namespace Lap

structure Iv (α : Type) where
  start : Nat
  stop : Nat
  val : α

variable {α : Type}

/-- `Interval::overlap(start, stop)`: `self.start < stop && self.stop > start` -/
def Iv.overlap (i : Iv α) (s e : Nat) : Bool := decide (i.start < e) && decide (i.stop > s)

/-- `lower_bound`, transcribed: `size` is the loop variable, `low` the accumulator.
    Returns `none` where the Rust code would index out of bounds (panic). -/
def lowerBound (key : Nat) (ivs : List (Iv α)) : Nat → Nat → Option Nat
  | 0, low => some low
  | size+1, low =>
    let sz := size + 1
    let half := sz / 2
    let other := sz - half
    let probe := low + half
    match ivs[probe]? with
    | none => none
    | some v => lowerBound key ivs half (if v.start < key then low + other else low)
termination_by size _ => size
decreasing_by omega

/-- the scan loop of `IterFind::next`, collected -/
def scan (s e : Nat) : List (Iv α) → List (Iv α)
  | [] => []
  | i :: rest =>
    if i.overlap s e then i :: scan s e rest
    else if i.start ≥ e then []
    else scan s e rest

/-- `Ord for Interval`: by start, then stop (the payload does not take part) -/
def ivLe (a b : Iv α) : Bool :=
  decide (a.start < b.start) || (decide (a.start = b.start) && decide (a.stop ≤ b.stop))

def maxLen : List (Iv α) → Nat
  | [] => 0
  | i :: rest => max (i.stop - i.start) (maxLen rest)

structure Lapper (α : Type) where
  ivs : List (Iv α)
  maxLen : Nat

/-- `Lapper::new`: stable sort by (start, stop); `max_len` = the longest interval
    (`checked_sub(..).unwrap_or(0)`). `slice::sort` and `List.mergeSort` are both stable. -/
def Lapper.new (l : List (Iv α)) : Lapper α :=
  let s := l.mergeSort ivLe
  ⟨s, Lap.maxLen s⟩

/-- `Lapper::find(start, stop)` collected; `none` = the index panic inside `lower_bound`. -/
def Lapper.find (lp : Lapper α) (s e : Nat) : Option (List (Iv α)) :=
  match lowerBound (s - lp.maxLen) lp.ivs lp.ivs.length 0 with
  | none => none
  | some off => some (scan s e (lp.ivs.drop off))

end Lap
