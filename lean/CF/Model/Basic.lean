/-
  Model of the coordinate layer: `omics-coordinate 0.2.0` (interbase, u64 positions) and
  `chainfile::liftover::stepthrough::interval_pair::ContiguousIntervalPair`.

  Conventions (DESIGN.md §4.1): numbers are `Nat` with the u64 bound as an explicit side
  condition; intervals are stored in forward normal form `⟨contig, strand, lo, hi⟩`; every
  `unwrap()`/`expect()`/`unreachable!()` on a modelled path is an explicit `.panic site`.
-/
namespace CF

def U64_MAX : Nat := 18446744073709551615

inductive Strand | pos | neg
deriving DecidableEq, Repr

/-- Outcome of a modelled Rust function: value, `Err`, or a panic at a named site. -/
inductive Out (ε α : Type) where
  | ok (a : α)
  | err (e : ε)
  | panic (site : String)
deriving Repr

/-- omics `Coordinate<Interbase>`: contig, strand, position. -/
structure Coord where
  contig : List UInt8
  strand : Strand
  pos : Nat
deriving DecidableEq, Repr

/-- `Coordinate::move_forward`: checked add on `+`, checked sub on `-`; 0 is the identity. -/
def Coord.moveForward (c : Coord) (m : Nat) : Option Coord :=
  if m = 0 then some c else
  match c.strand with
  | .pos => if c.pos + m ≤ U64_MAX then some { c with pos := c.pos + m } else none
  | .neg => if m ≤ c.pos then some { c with pos := c.pos - m } else none

/-- `Coordinate::move_backward`. -/
def Coord.moveBackward (c : Coord) (m : Nat) : Option Coord :=
  if m = 0 then some c else
  match c.strand with
  | .pos => if m ≤ c.pos then some { c with pos := c.pos - m } else none
  | .neg => if c.pos + m ≤ U64_MAX then some { c with pos := c.pos + m } else none

/-- omics `Interval<Interbase>` in forward normal form: `lo ≤ hi` are the two interbase
    positions; `start`/`stop` are derived from the strand (start = lo on '+', hi on '-'). -/
structure Interval where
  contig : List UInt8
  strand : Strand
  lo : Nat
  hi : Nat
deriving DecidableEq, Repr

def Interval.start (i : Interval) : Coord :=
  ⟨i.contig, i.strand, match i.strand with | .pos => i.lo | .neg => i.hi⟩
def Interval.stop (i : Interval) : Coord :=
  ⟨i.contig, i.strand, match i.strand with | .pos => i.hi | .neg => i.lo⟩

inductive IvErr | contigs | strands | negSized | clampContig | clampStrand | outOfBounds
deriving DecidableEq, Repr

/-- `Interval::try_new(start, end)`. -/
def Interval.tryNew (s e : Coord) : Except IvErr Interval :=
  if s.contig ≠ e.contig then .error .contigs
  else if s.strand ≠ e.strand then .error .strands
  else match s.strand with
    | .pos => if s.pos > e.pos then .error .negSized else .ok ⟨s.contig, .pos, s.pos, e.pos⟩
    | .neg => if e.pos > s.pos then .error .negSized else .ok ⟨s.contig, .neg, e.pos, s.pos⟩

/-- `Interval::contains_coordinate`: inclusive of both ends. -/
def Interval.contains (i : Interval) (c : Coord) : Bool :=
  decide (i.contig = c.contig) && decide (i.strand = c.strand) && decide (i.lo ≤ c.pos) && decide (c.pos ≤ i.hi)

/-- `Interval::count_entities` (interbase): number of bases spanned. -/
def Interval.count (i : Interval) : Nat := i.hi - i.lo

/-- strand-directed distance of forward position `x` from the interval's start -/
def Interval.offOf (i : Interval) (x : Nat) : Nat :=
  match i.strand with | .pos => x - i.lo | .neg => i.hi - x

/-- `Interval::coordinate_offset`. -/
def Interval.offset (i : Interval) (c : Coord) : Option Nat :=
  if i.contains c then some (i.offOf c.pos) else none

/-- `Interval::coordinate_at_offset`. -/
def Interval.atOffset (i : Interval) (k : Nat) : Option Coord :=
  match i.start.moveForward k with
  | none => none
  | some c => if i.contains c then some c else none

/-- omics `Interval::clamp`: max/min of the ends then `try_new(..).unwrap()` — it panics on
    disjoint operands. -/
def Interval.clamp (a b : Interval) : Out IvErr Interval :=
  if a.contig ≠ b.contig then .err .clampContig
  else if a.strand ≠ b.strand then .err .clampStrand
  else if max a.lo b.lo ≤ min a.hi b.hi then .ok ⟨a.contig, a.strand, max a.lo b.lo, min a.hi b.hi⟩
  else .panic "omics_clamp_unwrap"

/-- `ContiguousIntervalPair(reference, query)`. -/
structure Pair where
  ref : Interval
  qry : Interval
deriving DecidableEq, Repr

inductive PairErr | counts (a b : Nat) | interval (e : IvErr)
deriving DecidableEq, Repr

/-- `ContiguousIntervalPair::try_new`. -/
def Pair.tryNew (r q : Interval) : Except PairErr Pair :=
  if r.count ≠ q.count then .error (.counts r.count q.count) else .ok ⟨r, q⟩

/-- `ContiguousIntervalPair::liftover(&coordinate)`. -/
def Pair.lift (p : Pair) (c : Coord) : Option Coord :=
  match p.ref.offset c with
  | none => none
  | some off => p.qry.atOffset off

/-- `ContiguousIntervalPair::clamp` (with repair D3: an empty clamped reference interval maps to
    the image of that point). The five `unwrap()`s and the one inside omics' clamp are sites. -/
def Pair.clamp (p : Pair) (iv : Interval) : Out PairErr Pair :=
  match p.ref.clamp iv with
  | .err e => .err (.interval e)
  | .panic s => .panic s
  | .ok r =>
    match p.lift r.start with
    | none => .panic "clamp_start_image"
    | some qs =>
      if r.lo = r.hi then
        match Interval.tryNew qs qs with
        | .error _ => .panic "clamp_query_interval"
        | .ok q => match Pair.tryNew r q with | .ok p' => .ok p' | .error e => .err e
      else
      match (r.stop.moveBackward 1).filter (fun c => p.ref.contains c) with
      | none => .panic "clamp_end_minus_one"
      | some e1 =>
        match p.lift e1 with
        | none => .panic "clamp_end_image"
        | some qe1 =>
          match qe1.moveForward 1 with
          | none => .panic "clamp_plus_one"
          | some qe =>
            match Interval.tryNew qs qe with
            | .error _ => .panic "clamp_query_interval"
            | .ok q =>
              match Pair.tryNew r q with
              | .ok p' => .ok p'
              | .error e => .err e

end CF
