/-
  Model of the byte layer: a scripted `BufRead` (`Source`), std's `read_until(b'\n')` loop,
  `BufRead::read_line` (read_until + UTF-8 validation of the new bytes) and
  `chainfile::reader::read_line` (strip one LF, then one CR; the count includes terminators).

  `validUtf8` is a parameter of the model (DESIGN §4.3): every theorem holds for an arbitrary
  predicate; the driver instantiates it with core's `ByteArray.validateUTF8`.
-/
import CF.Model.Text
namespace CF

/-- one `fill_buf()` event of the underlying reader -/
inductive Ev | chunk (bs : List UInt8) | intr | fail
deriving Repr, DecidableEq

def Source := List Ev

/-- split at the first newline: (bytes up to and including it, rest) -/
def splitNL : List UInt8 → Option (List UInt8 × List UInt8)
  | [] => none
  | b :: bs =>
    if b = LF then some ([b], bs)
    else match splitNL bs with
      | none => none
      | some (pre, post) => some (b :: pre, post)

/-- std's `read_until(b'\n')` over a scripted BufRead: `Interrupted` ⇒ continue, any other error ⇒
    return it (the bytes gathered so far are dropped by `read_line`'s guard), no data left ⇒ return
    what was read. The `BufRead` contract says an empty buffer means end of input; the harness
    reader never delivers an empty chunk and the model skips them. Result: the bytes of the line
    including the terminator, and the remaining source. -/
def readUntil : List Ev → List UInt8 → Except Unit (List UInt8) × List Ev
  | [], acc => (.ok acc, [])
  | .intr :: r, acc => readUntil r acc
  | .fail :: r, _ => (.error (), r)
  | .chunk bs :: r, acc =>
    match splitNL bs with
    | some (pre, post) => (.ok (acc ++ pre), if post = [] then r else .chunk post :: r)
    | none => readUntil r (acc ++ bs)

/-- `reader::read_line`'s post-processing: pop one `\n`, then one `\r`. -/
def stripEol (bs : List UInt8) : List UInt8 :=
  if bs.getLast? = some LF then
    let b1 := bs.dropLast
    if b1.getLast? = some CR then b1.dropLast else b1
  else bs

/-- result of one `Reader::read_line_raw` call that did not report end of input -/
inductive RawRes
  | line (n : Nat) (text : List UInt8)   -- Ok(n) with the buffer's content
  | io                                    -- the underlying reader failed
  | utf8                                  -- Err(InvalidData): the line is not UTF-8
deriving Repr, DecidableEq

/-- one `Reader::read_line_raw`; `none` is `Ok(0)` (end of input). -/
def readLineRaw (validUtf8 : List UInt8 → Bool) (s : List Ev) : Option RawRes × List Ev :=
  match readUntil s [] with
  | (.error _, s') => (some .io, s')
  | (.ok [], s') => (none, s')
  | (.ok bs, s') => if validUtf8 bs then (some (.line bs.length (stripEol bs)), s') else (some .utf8, s')

/-- size measure: every call of `readLineRaw` that returns something strictly decreases it -/
def weight : List Ev → Nat
  | [] => 0
  | .chunk bs :: r => 1 + bs.length + weight r
  | _ :: r => 1 + weight r

/-- the results of successive `read_line_raw` calls until end of input (fuel = weight + 1 suffices) -/
def rawLinesF (validUtf8 : List UInt8 → Bool) : Nat → List Ev → List RawRes
  | 0, _ => []
  | f+1, s =>
    match readLineRaw validUtf8 s with
    | (none, _) => []
    | (some r, s') => r :: rawLinesF validUtf8 f s'

def rawLines (validUtf8 : List UInt8 → Bool) (s : List Ev) : List RawRes :=
  rawLinesF validUtf8 (weight s + 1) s

end CF
