/-
  Model of `liftover::stepthrough::{StepThroughWithData, StepThrough}` (with repair D6: the
  iterator is fused after its first error; pointer updates made before an early return are kept,
  as in the Rust code).
-/
import CF.Model.Sections
namespace CF

inductive StErr | oob (which : Nat) | interval | pair | misaligned | seq
deriving DecidableEq, Repr

structure StepIt where
  rp : Coord
  re : Coord
  qp : Coord
  qe : Coord
  data : List Rec
  finished : Bool
  errored : Bool
deriving Repr, DecidableEq

/-- `StepThroughWithData::new`. -/
def StepIt.new (s : Sec) : Except StErr StepIt :=
  match s.hdr.ref.interval with
  | .error _ => .error .seq
  | .ok r =>
    match s.hdr.qry.interval with
    | .error _ => .error .seq
    | .ok q => .ok ⟨r.start, r.stop, q.start, q.stop, s.data, false, false⟩

abbrev Item := Except StErr (Pair × Rec)

/-- `if let Some(d) = gap { pointer.move_forward(d) }` -/
def optMove (c : Coord) (d : Option Nat) : Option Coord :=
  match d with
  | none => some c
  | some k => c.moveForward k

/-- the body of one step (`step()` in the repaired code) -/
def StepIt.step (it : StepIt) : Option Item × StepIt :=
  match it.data with
  | [] =>
    if it.rp ≠ it.re then (some (.error .misaligned), it)
    else if it.qp ≠ it.qe then (some (.error .misaligned), it)
    else (none, { it with finished := true })
  | c :: rest =>
    let it := { it with data := rest }
    let rs := it.rp
    match it.rp.moveForward c.size with
    | none => (some (.error (.oob 0)), it)
    | some rp1 =>
      let it := { it with rp := rp1 }
      match Interval.tryNew rs rp1 with
      | .error _ => (some (.error .interval), it)
      | .ok refIv =>
        let qs := it.qp
        match it.qp.moveForward c.size with
        | none => (some (.error (.oob 1)), it)
        | some qp1 =>
          let it := { it with qp := qp1 }
          match Interval.tryNew qs qp1 with
          | .error _ => (some (.error .interval), it)
          | .ok qryIv =>
            match optMove it.qp c.dq with
            | none => (some (.error (.oob 2)), it)
            | some qp2 =>
              let it := { it with qp := qp2 }
              match optMove it.rp c.dt with
              | none => (some (.error (.oob 3)), it)
              | some rp2 =>
                let it := { it with rp := rp2 }
                match Pair.tryNew refIv qryIv with
                | .error _ => (some (.error .pair), it)
                | .ok p => (some (.ok (p, c)), it)

/-- one call of `next()` -/
def StepIt.next (it : StepIt) : Option Item × StepIt :=
  if it.errored then (none, it) else
  match it.step with
  | (some (.error e), it') => (some (.error e), { it' with errored := true })
  | r => r

def StepIt.drain : Nat → StepIt → List Item
  | 0, _ => []
  | fuel+1, it =>
    match it.next with
    | (none, _) => []
    | (some x, it') => x :: StepIt.drain fuel it'

end CF
