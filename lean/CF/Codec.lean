/-
  Text encoding of model values for the line protocol (DESIGN §3.2). Not part of the model the
  theorems are about; part of the correspondence check (trusted base).
-/
import CF.Model.Machine
namespace CF.Codec
open CF

def hexDigit (n : Nat) : Char :=
  if n < 10 then Char.ofNat (48 + n) else Char.ofNat (87 + n)

def hexOf (bs : List UInt8) : String :=
  String.ofList ('x' :: bs.flatMap (fun b => [hexDigit (b.toNat / 16), hexDigit (b.toNat % 16)]))

def hexVal (c : Char) : Option Nat :=
  if '0' ≤ c ∧ c ≤ '9' then some (c.toNat - 48)
  else if 'a' ≤ c ∧ c ≤ 'f' then some (c.toNat - 87)
  else none

def unhexL : List Char → Option (List UInt8)
  | [] => some []
  | a :: b :: rest =>
    match hexVal a, hexVal b, unhexL rest with
    | some x, some y, some r => some (UInt8.ofNat (x * 16 + y) :: r)
    | _, _, _ => none
  | _ => none

/-- `xHEX` → bytes -/
def unhex (s : String) : Option (List UInt8) :=
  match s.toList with
  | 'x' :: rest => unhexL rest
  | _ => none

def strandStr : Strand → String | .pos => "+" | .neg => "-"
def strandOf (s : String) : Option Strand := if s = "+" then some .pos else if s = "-" then some .neg else none

def coordStr (c : Coord) : String := s!"{hexOf c.contig}:{strandStr c.strand}:{c.pos}"
def ivStr (i : Interval) : String := s!"{hexOf i.contig}:{strandStr i.strand}:{i.start.pos}-{i.stop.pos}"
def pairStr (p : Pair) : String := s!"{ivStr p.ref}>{ivStr p.qry}"

def coordOf (s : String) : Option Coord :=
  match s.splitOn ":" with
  | [c, st, p] =>
    match unhex c, strandOf st, p.toNat? with
    | some c, some st, some p => some ⟨c, st, p⟩
    | _, _, _ => none
  | _ => none

/-- interval given by its two coordinates in strand direction; `Interval::try_new` decides -/
def ivOf (s : String) : Option (Except IvErr Interval) :=
  match s.splitOn ":" with
  | [c, st, se] =>
    match unhex c, strandOf st, se.splitOn "-" with
    | some c, some st, [a, b] =>
      (match a.toNat?, b.toNat? with
       | some a, some b => some (Interval.tryNew ⟨c, st, a⟩ ⟨c, st, b⟩)
       | _, _ => none)
    | _, _, _ => none
  | _ => none

def optStr : Option Nat → String | none => "_" | some n => toString n
def optOf (s : String) : Option (Option Nat) := if s = "_" then some none else s.toNat?.map some
def kindStr : Kind → String | .term => "T" | .nonterm => "N"
def kindOf (s : String) : Option Kind := if s = "T" then some .term else if s = "N" then some .nonterm else none

def seqStr (s : Seq) : String := s!"{hexOf s.name},{s.size},{strandStr s.strand},{s.start},{s.stop}"
def hdrStr (h : Hdr) : String := s!"{h.score} {seqStr h.ref} {seqStr h.qry} {h.id}"
def recStr (r : Rec) : String := s!"{r.size} {optStr r.dt} {optStr r.dq} {kindStr r.kind}"

def lineStr : Line → String
  | .empty => "empty"
  | .header h => s!"header {hdrStr h}"
  | .data r => s!"data {recStr r}"

def evOf (s : String) : Option Ev :=
  match s.toList with
  | ['i'] => some .intr
  | ['f'] => some .fail
  | ['f', _] => some .fail      -- `f<kind>`: a hard failure of some io::ErrorKind; every kind is final
  | 'c' :: rest => (unhexL rest).map .chunk
  | _ => none

def srcOf (s : String) : Option (List Ev) :=
  if s = "-" then some [] else (s.splitOn ",").mapM evOf

def validUtf8 (bs : List UInt8) : Bool := (ByteArray.mk bs.toArray).validateUTF8

def secErrStr : SecErr → String
  | .abruptEnd => "E abrupt"
  | .blank n => s!"E blank {n}"
  | .dataBetween r => s!"E databetween {recStr r}"
  | .headerIn h => s!"E headerin {hdrStr h}"
  | .unparsable t => s!"E unparsable {hexOf t}"
  | .io => "E io"
  | .builderMissingData => "E builder"

def secStr (s : Sec) : String := "S " ++ hdrStr s.hdr ++ String.join (s.data.map (fun r => " | " ++ recStr r))

def out3Str : Out3 → String
  | .item (.ok s) => secStr s
  | .item (.error e) => secErrStr e
  | .done => "done"
  | .panic s => s!"panic {s}"

def stErrStr : StErr → String
  | .oob _ => "E oob"
  | .interval => "E interval"
  | .pair => "E pair"
  | .misaligned => "E misaligned"
  | .seq => "E seq"

def join (sep : String) (l : List String) : String := sep.intercalate l

end CF.Codec
