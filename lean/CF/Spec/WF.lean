/-
  Specification layer: validity of parsed values and well-formedness of a file.
-/
import CF.Spec.Align
import CF.Spec.Grammar
namespace CF

/-- what the header parser guarantees for one side -/
def Seq.Valid (s : Seq) : Prop := s.start ≤ s.stop ∧ s.stop ≤ s.size ∧ s.size ≤ U64_MAX

def Hdr.Valid (h : Hdr) : Prop := h.ref.Valid ∧ h.qry.Valid ∧ h.score ≤ U64_MAX ∧ h.id ≤ U64_MAX

/-- what the record parser / constructor guarantees: gaps are present exactly on a non-terminating
    record; all numbers are u64 -/
def Rec.Valid (r : Rec) : Prop :=
  (r.kind = .nonterm ↔ r.dt.isSome) ∧ (r.kind = .nonterm ↔ r.dq.isSome) ∧
  r.size ≤ U64_MAX ∧ r.dt.getD 0 ≤ U64_MAX ∧ r.dq.getD 0 ≤ U64_MAX

def Line.Valid : Line → Prop
  | .empty => True
  | .header h => h.Valid
  | .data r => r.Valid

def Raw.Valid : Raw → Prop
  | .line l => l.Valid
  | _ => True

def Sec.Valid (s : Sec) : Prop := s.hdr.Valid ∧ ∀ r ∈ s.data, r.Valid

/-- no contig is declared with two sizes on one side -/
def noConflict (ss : List Sec) : Prop :=
  (∀ s₁ ∈ ss, ∀ s₂ ∈ ss, s₁.hdr.ref.name = s₂.hdr.ref.name → s₁.hdr.ref.size = s₂.hdr.ref.size) ∧
  (∀ s₁ ∈ ss, ∀ s₂ ∈ ss, s₁.hdr.qry.name = s₂.hdr.qry.name → s₁.hdr.qry.size = s₂.hdr.qry.size)

/-- a stream of read results is a well-formed chain file: every line was read and parsed, the
    lines conform to the grammar, every chain's records add up to both declared extents, and no
    contig is declared with two sizes -/
def WFFile (ls : List Raw) (ss : List Sec) : Prop :=
  ∃ lines, ls = lines.map Raw.line ∧ Parses lines ss ∧ (∀ s ∈ ss, s.sumsMatch) ∧ noConflict ss

end CF
