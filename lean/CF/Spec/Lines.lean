/-
  Specification layer: the lines of a byte string, independent of how the bytes arrive.
-/
import CF.Model.Source
namespace CF

/-- pieces of a byte string, each ending with its LF (the last one possibly without): -/
def splitLinesAux : List UInt8 → List UInt8 → List (List UInt8)
  | [], cur => if cur = [] then [] else [cur]
  | b :: bs, cur => if b = LF then (cur ++ [b]) :: splitLinesAux bs [] else splitLinesAux bs (cur ++ [b])

def splitLines (bs : List UInt8) : List (List UInt8) := splitLinesAux bs []

/-- what one `read_line_raw` reports for a piece: the number of bytes consumed (terminators
    included) and the line without them — or the UTF-8 failure -/
def lineRes (v : List UInt8 → Bool) (bs : List UInt8) : RawRes :=
  if v bs then .line bs.length (stripEol bs) else .utf8

def linesOfBytes (v : List UInt8 → Bool) (bs : List UInt8) : List RawRes := (splitLines bs).map (lineRes v)

/-- a file written from line texts: `eol` after every line, except after the last one when `final` is false -/
def encodeLines (eol : List UInt8) (final : Bool) : List (List UInt8) → List UInt8
  | [] => []
  | [t] => if final then t ++ eol else t
  | t :: ts => t ++ eol ++ encodeLines eol final ts

end CF
