/-
  Specification layer: what a chain file *means*, written without reference to the
  implementation's algorithm (DESIGN §5). File-local coordinates over unbounded `Nat`;
  `forward = size − 1 − local` for 0-based bases on '-'.
-/
import CF.Model.Machine
import CF.Spec.Basic
namespace CF

/-! ### blocks of a section by prefix sums -/

/-- total reference advance of a record list (sizes + reference gaps) -/
def sumT : List Rec → Nat
  | [] => 0
  | r :: rs => r.size + r.dt.getD 0 + sumT rs

/-- total query advance of a record list (sizes + query gaps) -/
def sumQ : List Rec → Nat
  | [] => 0
  | r :: rs => r.size + r.dq.getD 0 + sumQ rs

/-- the records add up exactly to both extents declared in the header -/
def Sec.sumsMatch (s : Sec) : Prop :=
  s.hdr.ref.start + sumT s.data = s.hdr.ref.stop ∧ s.hdr.qry.start + sumQ s.data = s.hdr.qry.stop

instance (s : Sec) : Decidable s.sumsMatch := by unfold Sec.sumsMatch; exact inferInstance

/-- interbase coordinate of file-local position `x` on a sequence -/
def Seq.coordOf (s : Seq) (x : Nat) : Coord :=
  ⟨s.name, s.strand, match s.strand with | .pos => x | .neg => s.size - x⟩

/-- the interbase interval covering file-local `[x, x+n)` -/
def Seq.ivOf (s : Seq) (x n : Nat) : Interval :=
  ⟨s.name, s.strand, match s.strand with | .pos => x | .neg => s.size - (x + n),
                      match s.strand with | .pos => x + n | .neg => s.size - x⟩

/-- the prefix-sum tiling: block `i` starts at local `t_i`, `q_i` and spans `size_i` on both sides -/
def expected (h : Hdr) : Nat → Nat → List Rec → List (Pair × Rec)
  | _, _, [] => []
  | t, q, r :: rs =>
    (⟨h.ref.ivOf t r.size, h.qry.ivOf q r.size⟩, r) ::
      expected h (t + r.size + r.dt.getD 0) (q + r.size + r.dq.getD 0) rs

/-- local bound of a side: where checked moves start to fail -/
def Seq.bound (s : Seq) : Nat := match s.strand with | .pos => U64_MAX | .neg => s.size

/-- the blocks of a section as interval pairs, in record order -/
def Sec.blocks (s : Sec) : List Pair := (expected s.hdr s.hdr.ref.start s.hdr.qry.start s.data).map (·.1)

/-- all blocks of a file in file order -/
def fileBlocks (ss : List Sec) : List Pair := ss.flatMap Sec.blocks

/-! ### the alignment relation on bases -/

/-- a base: contig, strand, 0-based forward position -/
structure Base where
  contig : List UInt8
  strand : Strand
  pos : Nat
deriving DecidableEq, Repr

/-- forward position of the 0-based file-local base `x` ("forward = size − 1 − local" on '-') -/
def Seq.fwd (s : Seq) (x : Nat) : Nat := match s.strand with | .pos => x | .neg => s.size - 1 - x

/-- local starts and size of each block: `(t_i, q_i, size_i)` -/
def localBlocks : Nat → Nat → List Rec → List (Nat × Nat × Nat)
  | _, _, [] => []
  | t, q, r :: rs => (t, q, r.size) :: localBlocks (t + r.size + r.dt.getD 0) (q + r.size + r.dq.getD 0) rs

/-- block `b = (t, q, n)` of section `s` aligns reference base `x` to query base `y` -/
def AlignedBy (s : Sec) (b : Nat × Nat × Nat) (x y : Base) : Prop :=
  ∃ k, k < b.2.2 ∧
    x = ⟨s.hdr.ref.name, s.hdr.ref.strand, s.hdr.ref.fwd (b.1 + k)⟩ ∧
    y = ⟨s.hdr.qry.name, s.hdr.qry.strand, s.hdr.qry.fwd (b.2.1 + k)⟩

/-- the file's alignment relation -/
def Aligned (ss : List Sec) (x y : Base) : Prop :=
  ∃ s ∈ ss, ∃ b ∈ localBlocks s.hdr.ref.start s.hdr.qry.start s.data, AlignedBy s b x y

/-- the `k`-th base of an interbase interval, counted in strand direction -/
def Interval.base (i : Interval) (k : Nat) : Base :=
  ⟨i.contig, i.strand, match i.strand with | .pos => i.lo + k | .neg => i.hi - 1 - k⟩

/-! ### restriction of a block to a query interval -/

/-- half-open overlap of a block's reference interval with `[iv.lo, iv.hi)` -/
def Pair.overlaps (p : Pair) (iv : Interval) : Bool := decide (p.ref.lo < iv.hi) && decide (p.ref.hi > iv.lo)

/-- spec-level restriction of a block to a query interval: the strand-directed offsets of the
    intersection, applied to both sides -/
def restrict (iv : Interval) (p : Pair) : Pair :=
  p.sub (min (p.ref.offOf (max p.ref.lo iv.lo)) (p.ref.offOf (min p.ref.hi iv.hi)))
        (max (p.ref.offOf (max p.ref.lo iv.lo)) (p.ref.offOf (min p.ref.hi iv.hi)))

/-- the block takes part in the answer for `iv` -/
def Pair.hit (p : Pair) (iv : Interval) : Bool :=
  decide (p.ref.contig = iv.contig) && decide (p.ref.strand = iv.strand) && p.overlaps iv

/-- what the property says the answer for `iv` is, as a list in file order: every block on the
    same reference contig and strand that overlaps `iv`, restricted to `iv` -/
def hits (ss : List Sec) (iv : Interval) : List Pair :=
  ((fileBlocks ss).filter (·.hit iv)).map (restrict iv)

end CF
