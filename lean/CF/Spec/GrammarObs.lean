/-
  Observation helpers for the grammar theorem (C05): drains up to the first error, and the
  specification items as iterator outputs.
-/
import CF.Spec.Grammar
namespace CF

def Out3.isErr : Out3 → Bool
  | .item (.error _) => true
  | _ => false

/-- the items of a drain up to and including the first error -/
def uptoErr : List Out3 → List Out3
  | [] => []
  | x :: xs => if x.isErr then [x] else x :: uptoErr xs

def SpecItem.toOut3 : SpecItem → Out3
  | .sec s => .item (.ok s)
  | .err e => .item (.error e)

def SpecItem.isSec : SpecItem → Bool
  | .sec _ => true
  | .err _ => false

end CF
