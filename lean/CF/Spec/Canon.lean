/-
  Specification layer: the canonical serialisation of a list of sections (used by C08, byte-level
  truncation).
-/
import CF.Spec.WF
import CF.Spec.Lines
namespace CF

/-- the text of a line as `Display` prints it (`[]` for the panic case, which cannot occur on valid records) -/
def printLine (l : Line) : List UInt8 :=
  match l.print with
  | .ok bs => bs
  | _ => []

/-- the lines of a section: its header, then its data records -/
def Sec.lines (s : Sec) : List Line := Line.header s.hdr :: s.data.map Line.data

/-- canonical serialisation of a file: for each section its header line, its data lines and one blank
    line; every line ends with LF; numerals are what `Display for u64` prints (no `+`, no leading zeros) -/
def canonLines (ss : List Sec) : List Line := ss.flatMap (fun s => s.lines ++ [Line.empty])

def canonBytes (ss : List Sec) : List UInt8 := encodeLines [LF] true ((canonLines ss).map printLine)

/-- the sections of a canonical well-formed file: valid numbers, each section is
    `nonterminating* · terminating`, the records add up to both extents, block sizes are positive,
    contig names contain neither space nor newline, no contig has two sizes -/
structure CanonSecs (ss : List Sec) : Prop where
  valid : ∀ s ∈ ss, s.Valid
  shape : ∀ s ∈ ss, ∃ mid last, s.data = mid ++ [last] ∧ (∀ r ∈ mid, r.kind = .nonterm) ∧ last.kind = .term
  sums : ∀ s ∈ ss, s.sumsMatch
  sizes : ∀ s ∈ ss, ∀ r ∈ s.data, 0 < r.size
  names : ∀ s ∈ ss, SP ∉ s.hdr.ref.name ∧ SP ∉ s.hdr.qry.name ∧ LF ∉ s.hdr.ref.name ∧ LF ∉ s.hdr.qry.name
  noconf : noConflict ss

end CF
