/-
  Specification layer: the chain-file line grammar (DESIGN §5), independent of the iterator's
  automaton. Blank lines separate sections; a section is `header · nonterminating* · terminating`.
-/
import CF.Model.Sections
namespace CF

/-- a stream of lines conforms to the grammar and denotes these sections -/
inductive Parses : List Line → List Sec → Prop
  | nil : Parses [] []
  | blank {ls ss} : Parses ls ss → Parses (.empty :: ls) ss
  | sec {ls ss} (h : Hdr) (mid : List Rec) (last : Rec)
      (hm : ∀ r ∈ mid, r.kind = .nonterm) (hl : last.kind = .term) : Parses ls ss →
      Parses (.header h :: (mid.map Line.data ++ [.data last] ++ ls)) (⟨h, mid ++ [last]⟩ :: ss)

/-- outcome of the specification-level parser -/
inductive SpecItem | sec (s : Sec) | err (e : SecErr)
deriving DecidableEq, Repr

/-- read the data lines of a section: `(nonterminating records, terminating record, rest)` or the
    first offending situation. `n` is the 1-based number of the next line. -/
def specBody (n : Nat) : List Raw → List Rec → Except (SecErr × List Raw) (List Rec × List Raw)
  | [], _ => .error (.abruptEnd, [])
  | .io :: rest, _ => .error (.io, rest)
  | .unparsable t :: rest, _ => .error (.unparsable t, rest)
  | .line .empty :: rest, _ => .error (.blank n, rest)
  | .line (.header h) :: rest, _ => .error (.headerIn h, rest)
  | .line (.data r) :: rest, acc =>
    match r.kind with
    | .term => .ok (acc ++ [r], rest)
    | .nonterm => specBody (n + 1) rest (acc ++ [r])

theorem specBody_length (n : Nat) (ls : List Raw) (acc : List Rec) :
    (∀ e rest, specBody n ls acc = .error (e, rest) → rest.length ≤ ls.length) ∧
    (∀ ds rest, specBody n ls acc = .ok (ds, rest) → rest.length < ls.length) := by
  induction ls generalizing n acc with
  | nil => simp [specBody]
  | cons x xs ih =>
    cases x with
    | io => simp [specBody]
    | unparsable t => simp [specBody]
    | line l =>
      cases l with
      | empty => simp [specBody]
      | header h => simp [specBody]
      | data r =>
        simp only [specBody]
        cases r.kind with
        | term => simp
        | nonterm =>
          have := ih (n + 1) (acc ++ [r])
          constructor
          · intro e rest h; have := this.1 e rest h; simp; omega
          · intro ds rest h; have := this.2 ds rest h; simp; omega

/-- The sections of a stream up to and including the first error, by the grammar: skip blank
    lines between sections; a header opens a section; the first line that fits nowhere is the
    error (DESIGN §5 table). `n` is the 1-based number of the next line. -/
def specSecs (n : Nat) (ls : List Raw) : List SpecItem :=
  match ls with
  | [] => []
  | .io :: _ => [.err .io]
  | .unparsable t :: _ => [.err (.unparsable t)]
  | .line .empty :: rest => specSecs (n + 1) rest
  | .line (.data r) :: _ => [.err (.dataBetween r)]
  | .line (.header h) :: rest =>
    match hb : specBody (n + 1) rest [] with
    | .error (e, _) => [.err e]
    | .ok (ds, rest') =>
      have : rest'.length < rest.length := (specBody_length (n + 1) rest []).2 ds rest' hb
      .sec ⟨h, ds⟩ :: specSecs (n + 1 + ds.length) rest'
termination_by ls.length
decreasing_by all_goals simp; try omega

end CF
