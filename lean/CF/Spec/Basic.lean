/-
  Specification-level vocabulary for intervals and pairs: well-formedness, strand-directed
  sub-intervals, coordinates at an offset.
-/
import CF.Model.Basic
namespace CF

def Interval.WF (i : Interval) : Prop := i.lo ≤ i.hi ∧ i.hi ≤ U64_MAX

def Pair.WF (p : Pair) : Prop := p.ref.WF ∧ p.qry.WF ∧ p.ref.count = p.qry.count

/-- sub-interval between strand-directed offsets `o1 ≤ o2` from the start -/
def Interval.sub (i : Interval) (o1 o2 : Nat) : Interval :=
  match i.strand with
  | .pos => { i with lo := i.lo + o1, hi := i.lo + o2 }
  | .neg => { i with lo := i.hi - o2, hi := i.hi - o1 }

def Pair.sub (p : Pair) (o1 o2 : Nat) : Pair := ⟨p.ref.sub o1 o2, p.qry.sub o1 o2⟩

/-- coordinate of `i` at strand-directed offset k (spec arithmetic) -/
def Interval.coordAt (i : Interval) (k : Nat) : Coord :=
  ⟨i.contig, i.strand, match i.strand with | .pos => i.lo + k | .neg => i.hi - k⟩

end CF
