/-
  Judges: executable forms of the property statements, evaluated by the driver on the
  specification layer and on the implementation's output (DESIGN §2.1, §3.2).
-/
import CF.Codec
import CF.Spec.Align
import CF.Spec.GrammarObs
import CF.Spec.WF
namespace CF.Judges
open CF CF.Codec

def specItemStr : SpecItem → String
  | .sec s => secStr s
  | .err e => secErrStr e

/-- the specification-level parse of a byte source -/
def specOf (src : List Ev) : List SpecItem := specSecs 1 ((rawLines validUtf8 src).map Raw.ofRes)

def secsOf (items : List SpecItem) : Option (List Sec) :=
  items.mapM (fun i => match i with | .sec s => some s | .err _ => none)

def noConflictB (ss : List Sec) : Bool :=
  ss.all (fun s₁ => ss.all (fun s₂ =>
    (s₁.hdr.ref.name != s₂.hdr.ref.name || s₁.hdr.ref.size == s₂.hdr.ref.size) &&
    (s₁.hdr.qry.name != s₂.hdr.qry.name || s₁.hdr.qry.size == s₂.hdr.qry.size)))

/-- `WFFile` decided: the sections, or the reason the file is ill-formed -/
def wfOf (src : List Ev) : Except String (List Sec) :=
  match secsOf (specOf src) with
  | none => .error "structure"
  | some ss =>
    if !(ss.all (fun s => decide s.sumsMatch)) then .error "sums"
    else if !(noConflictB ss) then .error "conflict"
    else .ok ss

def specSecsReply (src : List Ev) : String :=
  let items := specOf src
  join " ; " (items.map specItemStr ++ (if items.all SpecItem.isSec then ["done"] else []))

def specWfReply (src : List Ev) : String :=
  match wfOf src with
  | .ok ss => s!"wf {ss.length}"
  | .error r => s!"illformed {r}"

def specHitsReply (src : List Ev) (ivs : List String) : String :=
  match wfOf src with
  | .error r => s!"illformed {r}"
  | .ok ss =>
    join " ; " ("wf" :: ivs.map (fun t =>
      match ivOf t with
      | some (.ok iv) =>
        (match hits ss iv with
         | [] => "none"
         | hs => "some" ++ String.join (hs.map (fun p => " " ++ pairStr p)))
      | _ => "badiv"))

def specBlocksReply (src : List Ev) : String :=
  match wfOf src with
  | .error r => s!"illformed {r}"
  | .ok ss => "wf" ++ String.join ((fileBlocks ss).map (fun p => " " ++ pairStr p))

/-- `p` is a strand-directed sub-range of block `blk`, the same on both sides -/
def isSubOf (blk p : Pair) : Bool :=
  p.ref.contig == blk.ref.contig && p.ref.strand == blk.ref.strand &&
  p.qry.contig == blk.qry.contig && p.qry.strand == blk.qry.strand &&
  decide (blk.ref.lo ≤ p.ref.lo) && decide (p.ref.lo ≤ p.ref.hi) && decide (p.ref.hi ≤ blk.ref.hi) &&
  (let o1 := blk.ref.offOf (match blk.ref.strand with | .pos => p.ref.lo | .neg => p.ref.hi)
   let o2 := blk.ref.offOf (match blk.ref.strand with | .pos => p.ref.hi | .neg => p.ref.lo)
   p == blk.sub o1 o2)

def pairOfStr (s : String) : Option Pair :=
  match s.splitOn ">" with
  | [r, q] =>
    (match ivOf r, ivOf q with
     | some (.ok r), some (.ok q) => some ⟨r, q⟩
     | _, _ => none)
  | _ => none

/-- C01 on the implementation's answer: every pair is equal-length, on the interval's contig and
    strand, inside the interval, and a sub-range of one block of the file -/
def soundReply (src : List Ev) (ivs : String) (pairs : List String) : String :=
  match wfOf src, ivOf ivs with
  | .ok ss, some (.ok iv) =>
    let blocks := fileBlocks ss
    match pairs.mapM pairOfStr with
    | none => "badreq"
    | some ps =>
      match ps.find? (fun p => !(p.ref.count == p.qry.count && p.ref.contig == iv.contig && p.ref.strand == iv.strand &&
                                 decide (iv.lo ≤ p.ref.lo) && decide (p.ref.hi ≤ iv.hi) && blocks.any (fun b => isSubOf b p))) with
      | none => "ok"
      | some p => s!"fail {pairStr p}"
  | .error r, _ => s!"illformed {r}"
  | _, _ => "badreq"

/-- C04: the expected tiling of a section and whether its records add up -/
def specStepReply (hdr : List UInt8) (recs : List (List UInt8)) : String :=
  match Hdr.parse hdr, recs.mapM (fun r => match Rec.parse r with | .ok r => some r | .error _ => none) with
  | .ok h, some rs =>
    let s : Sec := ⟨h, rs⟩
    let items := (expected h h.ref.start h.qry.start rs).map (fun (p, r) => s!"P {pairStr p} | {recStr r}")
    join " ; " (items ++ [if decide s.sumsMatch then "match" else "nomatch"])
  | _, _ => "badinput"

def handle (args : List String) : String :=
  match args with
  | ["secs", src] => match srcOf src with | some s => specSecsReply s | none => "badreq"
  | ["wf", src] => match srcOf src with | some s => specWfReply s | none => "badreq"
  | ["hits", src, ivs] => match srcOf src with | some s => specHitsReply s (ivs.splitOn ",") | none => "badreq"
  | ["blocks", src] => match srcOf src with | some s => specBlocksReply s | none => "badreq"
  | "sound" :: src :: iv :: pairs => match srcOf src with | some s => soundReply s iv pairs | none => "badreq"
  | ["step", hdr, recs] =>
    (match unhex hdr, (recs.splitOn ",").mapM unhex with
     | some h, some rs => specStepReply h rs
     | _, _ => "badreq")
  | _ => "badreq"

end CF.Judges
