/-
  Judges: executable forms of the property statements, evaluated on the implementation's output.
-/
import CF.Codec
namespace CF.Judges
open CF CF.Codec

def handle (_args : List String) : String := "badreq"

end CF.Judges
