/-
  Lemmas for C08 (byte-level truncation of a canonical file): the printed lines, reading a
  file of printed lines back, the canonical file is well-formed.
-/
import CF.Spec.Canon
import CF.Lemmas.TruncText
import CF.Props.C03
import CF.Props.C12
import CF.Props.C13
import CF.Props.C14
namespace CF

/-! ### printed texts -/

theorem printLine_empty : printLine .empty = [] := rfl

theorem printLine_header (h : Hdr) : printLine (.header h) = h.print := rfl

theorem printLine_data {r : Rec} {bs : List UInt8} (h : r.print = .ok bs) : printLine (.data r) = bs := by
  simp [printLine, Line.print, h]

theorem LF_not_mem_printNat (n : Nat) : LF ∉ printNat n := by
  intro h
  exact absurd (printNat_digits n LF h) (by decide)

theorem getLast?_append_ne_nil {α : Type} (a b : List α) (hb : b ≠ []) : (a ++ b).getLast? = b.getLast? := by
  cases hl : b.getLast? with
  | none => exact absurd (List.getLast?_eq_none_iff.1 hl) hb
  | some x => simp [List.getLast?_append, hl]

/-- a text that ends with a printed number does not end in CR -/
theorem getLast?_printNat_ne_CR (a : List UInt8) (n : Nat) : (a ++ printNat n).getLast? ≠ some CR := by
  rw [getLast?_append_ne_nil _ _ (printNat_ne_nil n)]
  intro h
  exact absurd (printNat_digits n CR (List.mem_of_getLast? h)) (by decide)

theorem LF_not_mem_strand (s : Strand) : LF ∉ s.print := by
  cases s <;> decide

theorem LF_not_mem_hdr_print (h : Hdr) (h1 : LF ∉ h.ref.name) (h2 : LF ∉ h.qry.name) : LF ∉ h.print := by
  have hc : LF ∉ CHAIN := by decide
  have hsp : LF ≠ SP := by decide
  have hn := LF_not_mem_printNat
  have hs := LF_not_mem_strand
  simp only [Hdr.print, Seq.print, List.mem_append, List.mem_cons, not_or]
  simp [hc, hsp, hn, hs, h1, h2]

theorem hdr_print_last (h : Hdr) : h.print.getLast? ≠ some CR := by
  have : h.print = (CHAIN ++ SP :: printNat h.score ++ SP :: h.ref.print ++ SP :: h.qry.print ++ [SP]) ++ printNat h.id := by
    simp [Hdr.print, List.append_assoc]
  rw [this]
  exact getLast?_printNat_ne_CR _ _

/-- the printed form of a valid record -/
theorem Rec.print_cases (r : Rec) (hv : r.Valid) :
    (r.kind = .term ∧ r.print = .ok (printNat r.size)) ∨
    (r.kind = .nonterm ∧ ∃ dt dq, r.print = .ok (printNat r.size ++ TAB :: printNat dt ++ TAB :: printNat dq)) := by
  obtain ⟨size, dt, dq, kind⟩ := r
  obtain ⟨h1, h2, _, _, _⟩ := hv
  simp only at h1 h2
  cases kind with
  | term => exact Or.inl ⟨rfl, rfl⟩
  | nonterm =>
    cases dt with
    | none => simp at h1
    | some dt =>
      cases dq with
      | none => simp at h2
      | some dq => exact Or.inr ⟨rfl, dt, dq, rfl⟩

/-- a line that is read back as itself -/
def GoodLine (l : Line) : Prop :=
  Line.parse (printLine l) = .ok l ∧ LF ∉ printLine l ∧ (printLine l).getLast? ≠ some CR

theorem goodLine_empty : GoodLine .empty := by
  refine ⟨?_, ?_, ?_⟩ <;> simp [printLine_empty, Line.parse]

theorem goodLine_header (h : Hdr) (hv : h.Valid)
    (hn : SP ∉ h.ref.name ∧ SP ∉ h.qry.name ∧ LF ∉ h.ref.name ∧ LF ∉ h.qry.name) : GoodLine (.header h) := by
  refine ⟨?_, ?_, ?_⟩
  · rw [printLine_header]
    exact Line.parse_header (isPrefix_CHAIN_print h)
      (Hdr.parse_print h ⟨hn.1, hn.2.1⟩ hv.2.2.1 hv.2.2.2 hv.1 hv.2.1)
  · rw [printLine_header]; exact LF_not_mem_hdr_print h hn.2.2.1 hn.2.2.2
  · rw [printLine_header]; exact hdr_print_last h

theorem goodLine_data (r : Rec) (hv : r.Valid) : GoodLine (.data r) := by
  obtain ⟨bs, hb, hpb⟩ := C13_record r hv
  obtain ⟨d, rest, hbs, hd⟩ := Rec.print_head hb
  rw [GoodLine, printLine_data hb]
  refine ⟨by rw [hbs] at hpb ⊢; exact Line.parse_data hd hpb, ?_, ?_⟩
  · rcases Rec.print_cases r hv with ⟨_, hp⟩ | ⟨_, dt, dq, hp⟩
    · rw [hp] at hb; cases hb; exact LF_not_mem_printNat _
    · rw [hp] at hb; cases hb
      have hn := LF_not_mem_printNat
      have ht : LF ≠ TAB := by decide
      simp [hn, ht]
  · rcases Rec.print_cases r hv with ⟨_, hp⟩ | ⟨_, dt, dq, hp⟩
    · rw [hp] at hb; cases hb
      have := getLast?_printNat_ne_CR [] r.size
      simpa using this
    · rw [hp] at hb; cases hb
      have : printNat r.size ++ TAB :: printNat dt ++ TAB :: printNat dq =
          (printNat r.size ++ TAB :: printNat dt ++ [TAB]) ++ printNat dq := by simp [List.append_assoc]
      rw [this]
      exact getLast?_printNat_ne_CR _ _

/-! ### reading a file of printed lines -/

/-- what `Reader::read_line` makes of a text that passed the UTF-8 check -/
def parsedRaw (p : List UInt8) : Raw :=
  match Line.parse p with
  | .ok l => .line l
  | .error _ => .unparsable p

theorem build_chunk (v : List UInt8 → Bool) (bs : List UInt8) :
    build v [.chunk bs] = buildL ((linesOfBytes v bs).map Raw.ofRes) := by
  unfold build
  rw [C12_lines_spec v _ (by simp [chunkOnly])]
  simp [bytesOf]

/-- the read results of a file of good lines followed by an unterminated rest -/
theorem raws_enc (v : List UInt8 → Bool) (ls : List Line) (hg : ∀ l ∈ ls, GoodLine l) (p : List UInt8)
    (hp : LF ∉ p) :
    (linesOfBytes v (encLF (ls.map printLine) ++ p)).map Raw.ofRes =
      ls.map (fun l => if v (printLine l ++ [LF]) then Raw.line l else Raw.io) ++
        (if p = [] then [] else [if v p then parsedRaw p else Raw.io]) := by
  have hlf : ∀ t ∈ ls.map printLine, LF ∉ t := by
    intro t ht
    obtain ⟨l, hl, rfl⟩ := List.mem_map.1 ht
    exact (hg l hl).2.1
  unfold linesOfBytes
  rw [splitLines_encLF _ hlf p hp]
  simp only [List.map_append, List.map_map]
  congr 1
  · apply List.map_congr_left
    intro l hl
    obtain ⟨g1, g2, g3⟩ := hg l hl
    simp only [Function.comp_def, lineRes]
    by_cases hv : v (printLine l ++ [LF]) = true
    · simp only [hv, if_true, Raw.ofRes, stripEol_LF _ g3, g1]
    · simp only [hv, Raw.ofRes]
      simp
  · by_cases hpe : p = []
    · simp [hpe]
    · simp only [hpe, if_false, List.map_cons, List.map_nil, Function.comp_def, lineRes]
      by_cases hv : v p = true
      · simp only [hv, if_true, Raw.ofRes, stripEol_of_ne p (getLast?_ne_of_not_mem p LF hp), parsedRaw]
        rfl
      · simp only [hv, Raw.ofRes]
        simp

/-- either the UTF-8 check refused a line (an I/O error) or every line came through -/
theorem map_ite_io (c : Line → Bool) (ls : List Line) :
    Raw.io ∈ ls.map (fun l => if c l then Raw.line l else Raw.io) ∨
    ls.map (fun l => if c l then Raw.line l else Raw.io) = ls.map Raw.line := by
  induction ls with
  | nil => exact Or.inr rfl
  | cons l ls ih =>
    by_cases hc : c l = true
    · rcases ih with h | h
      · exact Or.inl (List.mem_cons_of_mem _ h)
      · right
        simp only [List.map_cons, hc, if_true, h]
    · left
      simp [hc]

/-- the read results of a cut file: an I/O error somewhere, or the complete lines followed by what
    the line parser makes of the unterminated rest -/
theorem raws_enc_cases (v : List UInt8 → Bool) (ls : List Line) (hg : ∀ l ∈ ls, GoodLine l) (p : List UInt8)
    (hp : LF ∉ p) :
    Raw.io ∈ (linesOfBytes v (encLF (ls.map printLine) ++ p)).map Raw.ofRes ∨
    (linesOfBytes v (encLF (ls.map printLine) ++ p)).map Raw.ofRes =
      ls.map Raw.line ++ (if p = [] then [] else [parsedRaw p]) := by
  rw [raws_enc v ls hg p hp]
  rcases map_ite_io (fun l => v (printLine l ++ [LF])) ls with h | h
  · exact Or.inl (List.mem_append_left _ h)
  · by_cases hpe : p = []
    · right; simp only [hpe, if_true, h]
    · by_cases hv : v p = true
      · right; simp only [hpe, if_false, hv, if_true, h]
      · left
        apply List.mem_append_right
        simp [hpe, hv]

/-! ### the canonical file is well-formed -/

theorem canonLines_nil : canonLines [] = [] := rfl

theorem canonLines_cons (s : Sec) (ss : List Sec) :
    canonLines (s :: ss) = Line.header s.hdr :: (s.data.map Line.data ++ Line.empty :: canonLines ss) := by
  simp [canonLines, Sec.lines]

theorem canonLines_append (a b : List Sec) : canonLines (a ++ b) = canonLines a ++ canonLines b := by
  simp [canonLines]

theorem mem_canonLines {ss : List Sec} {l : Line} (h : l ∈ canonLines ss) :
    l = .empty ∨ ∃ s ∈ ss, l = .header s.hdr ∨ ∃ r ∈ s.data, l = .data r := by
  induction ss with
  | nil => simp [canonLines_nil] at h
  | cons s ss ih =>
    rw [canonLines_cons] at h
    simp only [List.mem_cons, List.mem_append, List.mem_map] at h
    rcases h with h | ⟨r, hr, h⟩ | h | h
    · exact Or.inr ⟨s, List.mem_cons_self .., Or.inl h⟩
    · exact Or.inr ⟨s, List.mem_cons_self .., Or.inr ⟨r, hr, h.symm⟩⟩
    · exact Or.inl h
    · rcases ih h with h | ⟨s', hs', h⟩
      · exact Or.inl h
      · exact Or.inr ⟨s', List.mem_cons_of_mem _ hs', h⟩

theorem canon_good {ss : List Sec} (hc : CanonSecs ss) : ∀ l ∈ canonLines ss, GoodLine l := by
  intro l hl
  rcases mem_canonLines hl with h | ⟨s, hs, h | ⟨r, hr, h⟩⟩
  · subst h; exact goodLine_empty
  · subst h; exact goodLine_header _ (hc.valid s hs).1 (hc.names s hs)
  · subst h; exact goodLine_data _ ((hc.valid s hs).2 r hr)

theorem canon_valid {ss : List Sec} (hc : CanonSecs ss) : ∀ r ∈ (canonLines ss).map Raw.line, r.Valid := by
  intro x hx
  obtain ⟨l, hl, rfl⟩ := List.mem_map.1 hx
  rcases mem_canonLines hl with h | ⟨s, hs, h | ⟨r, hr, h⟩⟩
  · subst h; trivial
  · subst h; exact (hc.valid s hs).1
  · subst h; exact (hc.valid s hs).2 r hr

theorem canon_parses : ∀ (ss : List Sec),
    (∀ s ∈ ss, ∃ mid last, s.data = mid ++ [last] ∧ (∀ r ∈ mid, r.kind = .nonterm) ∧ last.kind = .term) →
    Parses (canonLines ss) ss := by
  intro ss
  induction ss with
  | nil => intro _; exact Parses.nil
  | cons s ss ih =>
    intro h
    obtain ⟨mid, last, hd, hm, hl⟩ := h s (List.mem_cons_self ..)
    have ih' := ih (fun x hx => h x (List.mem_cons_of_mem _ hx))
    have := Parses.sec s.hdr mid last hm hl (Parses.blank ih')
    rw [canonLines_cons, hd]
    have hs : s = ⟨s.hdr, mid ++ [last]⟩ := by cases s; simp at hd; simp [hd]
    rw [hs]
    simpa [List.append_assoc] using this

theorem canon_wf {ss : List Sec} (hc : CanonSecs ss) : WFFile ((canonLines ss).map Raw.line) ss :=
  ⟨canonLines ss, rfl, canon_parses ss hc.shape, hc.sums, hc.noconf⟩

theorem CanonSecs.sub {ss : List Sec} (hc : CanonSecs ss) (sa : List Sec) (h : ∀ s ∈ sa, s ∈ ss) :
    ∀ s ∈ sa, ∃ mid last, s.data = mid ++ [last] ∧ (∀ r ∈ mid, r.kind = .nonterm) ∧ last.kind = .term :=
  fun s hs => hc.shape s (h s hs)

end CF
