import CF.Lemmas.Step
import CF.Spec.WF
import CF.Lemmas.StepConv
namespace CF

/-- A step-through yields at most one item per data record plus one, however long the caller keeps
    going (every fuel), from every state of the iterator. -/
theorem C07_step_bound (it : StepIt) (fuel : Nat) : (it.drain fuel).length ≤ it.data.length + 1 := by
  exact StepIt.drain_length_le fuel it

/-- Once a step-through has reported an error it yields nothing further: every later `next()`
    returns `None` and leaves the iterator unchanged. -/
theorem C07_step_fused (it it' : StepIt) (e : StErr) (h : it.next = (some (.error e), it')) :
    it'.errored = true ∧ ∀ it'' : StepIt, it''.errored = true → it''.next = (none, it'') := by
  refine ⟨?_, fun it'' h'' => StepIt.next_errored it'' h''⟩
  rcases StepIt.next_cases it with ⟨it1, hn⟩ | ⟨e1, it1, hn, he, _⟩ | ⟨x, it1, hn, _, _⟩
  · rw [hn] at h; simp at h
  · rw [hn] at h
    simp only [Prod.mk.injEq] at h
    rw [← h.2]; exact he
  · rw [hn] at h; simp at h

/-- In a drain, an error can only be the last item. -/
theorem C07_step_error_last (it : StepIt) (fuel : Nat) (pre post : List Item) (e : StErr)
    (h : it.drain fuel = pre ++ .error e :: post) : post = [] := by
  exact StepIt.drain_error_last fuel it pre post e h

/-- A drain that is given enough fuel ends by itself (`next()` returned `None`), so collecting the
    iterator terminates: more fuel does not produce more items. -/
theorem C07_step_ends (it : StepIt) (fuel : Nat) (hf : it.data.length + 2 ≤ fuel) :
    it.drain fuel = it.drain (it.data.length + 2) := by
  exact StepIt.drain_stable fuel it (it.data.length + 2) hf (Nat.le_refl _)

end CF
