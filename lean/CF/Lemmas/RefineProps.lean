/-
  Helper lemmas for the properties derived from `lift_refines` / `lift_char` (C09, C10, C11, C16).
-/
import CF.Lemmas.Refine
namespace CF

/-- the reference side of a restricted block is the intersection with the interval -/
theorem restrict_ref_eq (iv blk : Interval) (q : Interval) (hwf : blk.lo ≤ blk.hi)
    (hiv : iv.lo ≤ iv.hi) (hov : blk.lo < iv.hi ∧ blk.hi > iv.lo) :
    (restrict iv ⟨blk, q⟩).ref = ⟨blk.contig, blk.strand, max blk.lo iv.lo, min blk.hi iv.hi⟩ := by
  obtain ⟨c, s, lo, hi⟩ := blk
  simp only at hwf hov
  rcases Nat.le_total lo iv.lo with h | h <;> rcases Nat.le_total hi iv.hi with h' | h' <;>
  cases s <;> simp only [restrict, Pair.sub, Interval.sub, Interval.offOf, Interval.mk.injEq, true_and,
    Nat.max_eq_right h, Nat.max_eq_left h, Nat.min_eq_left h', Nat.min_eq_right h'] <;>
    refine ⟨?_, ?_⟩ <;> omega

/-- the query side of a restricted block stays inside the block's query interval -/
theorem restrict_qry_bounds (iv : Interval) (p : Pair) (hwf : p.WF)
    (hiv : iv.lo ≤ iv.hi) (hov : p.ref.lo < iv.hi ∧ p.ref.hi > iv.lo) :
    (restrict iv p).qry.contig = p.qry.contig ∧ (restrict iv p).qry.strand = p.qry.strand ∧
    p.qry.lo ≤ (restrict iv p).qry.lo ∧ (restrict iv p).qry.lo ≤ (restrict iv p).qry.hi ∧
    (restrict iv p).qry.hi ≤ p.qry.hi := by
  obtain ⟨⟨c, s, lo, hi⟩, ⟨c', s', lo', hi'⟩⟩ := p
  obtain ⟨⟨h1, h2⟩, ⟨h3, h4⟩, h5⟩ := hwf
  simp only [Interval.count] at *
  rcases Nat.le_total lo iv.lo with h | h <;> rcases Nat.le_total hi iv.hi with h' | h' <;>
  cases s <;> cases s' <;> simp only [restrict, Pair.sub, Interval.sub, Interval.offOf, true_and,
    Nat.max_eq_right h, Nat.max_eq_left h, Nat.min_eq_left h', Nat.min_eq_right h'] <;>
    refine ⟨?_, ?_, ?_⟩ <;> omega

/-- `hit` as a proposition -/
theorem hit_iff (p : Pair) (iv : Interval) :
    p.hit iv = true ↔ p.ref.contig = iv.contig ∧ p.ref.strand = iv.strand ∧ p.ref.lo < iv.hi ∧ p.ref.hi > iv.lo := by
  simp only [Pair.hit, Pair.overlaps, Bool.and_eq_true, decide_eq_true_eq, and_assoc]

/-- membership in the specification's answer -/
theorem mem_hits_blk {ss : List Sec} {iv : Interval} {p : Pair} :
    p ∈ hits ss iv ↔ ∃ s ∈ ss, ∃ blk ∈ s.blocks, blk.hit iv = true ∧ p = restrict iv blk := by
  simp only [hits, fileBlocks, List.mem_map, List.mem_filter, List.mem_flatMap]
  constructor
  · rintro ⟨blk, ⟨⟨s, hs, hblk⟩, hh⟩, rfl⟩
    exact ⟨s, hs, blk, hblk, hh, rfl⟩
  · rintro ⟨s, hs, blk, hblk, hh, rfl⟩
    exact ⟨blk, ⟨⟨s, hs, hblk⟩, hh⟩, rfl⟩

/-- every pair of a machine's answer is a hitting block of some section, restricted -/
theorem mem_liftL (ls : List Raw) (hv : ∀ r ∈ ls, r.Valid) (ss : List Sec) (hw : WFFile ls ss)
    (m : Machine) (hb : buildL ls = .ok m) (iv : Interval) (hiv : iv.WF) (p : Pair) (hp : p ∈ liftL m iv) :
    ∃ s ∈ ss, s.hdr.Valid ∧ s.sumsMatch ∧ ∃ blk ∈ s.blocks, blk.hit iv = true ∧ p = restrict iv blk := by
  have h := (liftL_perm_hits ls hv ss hw m hb iv hiv).mem_iff.1 hp
  obtain ⟨s, hs, blk, hblk, hh, rfl⟩ := mem_hits_blk.1 h
  have hm := (C03_machine ls hv ss hw m hb).2.2.2 s hs
  exact ⟨s, hs, hm.1, hm.2, blk, hblk, hh, rfl⟩

/-- a base lies in its own single-base interval -/
theorem hasBase_self (x : Base) : (Interval.mk x.contig x.strand x.pos (x.pos + 1)).hasBase x := by
  simp [Interval.hasBase]

end CF
