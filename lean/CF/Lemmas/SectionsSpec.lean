/-
  Lemmas for C05: the specification-level parser `specSecs`/`specBody` against the grammar
  `Parses`, and the section iterator `SecIt.go` against `specSecs`.
-/
import CF.Spec.GrammarObs
import CF.Lemmas.Grammar
namespace CF

/-! ### unfolding `specSecs` -/

theorem specSecs_nil (n : Nat) : specSecs n [] = [] := by
  rw [specSecs]

theorem specSecs_io (n : Nat) (rest : List Raw) : specSecs n (.io :: rest) = [.err .io] := by
  rw [specSecs]

theorem specSecs_unparsable (n : Nat) (t : List UInt8) (rest : List Raw) :
    specSecs n (.unparsable t :: rest) = [.err (.unparsable t)] := by
  rw [specSecs]

theorem specSecs_empty (n : Nat) (rest : List Raw) :
    specSecs n (.line .empty :: rest) = specSecs (n + 1) rest := by
  rw [specSecs]

theorem specSecs_data (n : Nat) (r : Rec) (rest : List Raw) :
    specSecs n (.line (.data r) :: rest) = [.err (.dataBetween r)] := by
  rw [specSecs]

theorem specSecs_header_ok (n : Nat) (h : Hdr) (rest : List Raw) (ds : List Rec) (rest' : List Raw)
    (hb : specBody (n + 1) rest [] = .ok (ds, rest')) :
    specSecs n (.line (.header h) :: rest) = .sec ⟨h, ds⟩ :: specSecs (n + 1 + ds.length) rest' := by
  rw [specSecs]
  split
  · rename_i h1; rw [hb] at h1; cases h1
  · rename_i h1; rw [hb] at h1; cases h1; rfl

theorem specSecs_header_err (n : Nat) (h : Hdr) (rest : List Raw) (e : SecErr) (rest' : List Raw)
    (hb : specBody (n + 1) rest [] = .error (e, rest')) :
    specSecs n (.line (.header h) :: rest) = [.err e] := by
  rw [specSecs]
  split
  · rename_i h1; rw [hb] at h1; cases h1; rfl
  · rename_i h1; rw [hb] at h1; cases h1

/-! ### `specBody` -/

/-- non-terminating data lines are accumulated -/
theorem specBody_mid (tail : List Raw) : ∀ (mid : List Rec) (_ : ∀ r ∈ mid, r.kind = .nonterm)
    (n : Nat) (acc : List Rec),
    specBody n (mid.map (fun r => Raw.line (.data r)) ++ tail) acc =
      specBody (n + mid.length) tail (acc ++ mid) := by
  intro mid
  induction mid with
  | nil => intro _ n acc; simp
  | cons r rs ih =>
    intro hm n acc
    have hr : r.kind = .nonterm := hm r (List.mem_cons_self ..)
    simp only [List.map_cons, List.cons_append, specBody, hr]
    rw [ih (fun x hx => hm x (List.mem_cons_of_mem _ hx))]
    simp [Nat.add_assoc, Nat.add_comm 1]

theorem specBody_section (mid : List Rec) (hm : ∀ r ∈ mid, r.kind = .nonterm) (last : Rec)
    (hl : last.kind = .term) (rest : List Raw) (n : Nat) (acc : List Rec) :
    specBody n (mid.map (fun r => Raw.line (.data r)) ++ Raw.line (.data last) :: rest) acc =
      .ok (acc ++ mid ++ [last], rest) := by
  rw [specBody_mid _ mid hm]
  simp only [specBody, hl]

theorem specBody_ok_shape : ∀ (ls : List Raw) (n : Nat) (acc ds : List Rec) (rest' : List Raw),
    specBody n ls acc = .ok (ds, rest') →
    ∃ mid last, ds = acc ++ mid ++ [last] ∧ (∀ r ∈ mid, r.kind = .nonterm) ∧ last.kind = .term ∧
      ls = mid.map (fun r => Raw.line (.data r)) ++ Raw.line (.data last) :: rest' := by
  intro ls
  induction ls with
  | nil => intro n acc ds rest' h; simp [specBody] at h
  | cons x xs ih =>
    intro n acc ds rest' h
    cases x with
    | io => simp [specBody] at h
    | unparsable t => simp [specBody] at h
    | line l =>
      cases l with
      | empty => simp [specBody] at h
      | header h' => simp [specBody] at h
      | data r =>
        simp only [specBody] at h
        cases hk : r.kind with
        | term =>
          simp only [hk] at h
          cases h
          exact ⟨[], r, by simp, by simp, hk, by simp⟩
        | nonterm =>
          simp only [hk] at h
          obtain ⟨mid, last, h1, h2, h3, h4⟩ := ih _ _ _ _ h
          refine ⟨r :: mid, last, by simp [h1], ?_, h3, by simp [h4]⟩
          intro x hx
          rcases List.mem_cons.1 hx with rfl | hx
          · exact hk
          · exact h2 x hx

/-! ### `specSecs` and `Parses` -/

/-- a conforming prefix yields its sections; the parser continues behind it with the right line number -/
theorem specSecs_parses_append {good : List Line} {ss : List Sec} (hp : Parses good ss) :
    ∀ (n : Nat) (tail : List Raw),
      specSecs n (good.map Raw.line ++ tail) = ss.map SpecItem.sec ++ specSecs (n + good.length) tail := by
  induction hp with
  | nil => intro n tail; simp
  | blank _ ih =>
    intro n tail
    simp only [List.map_cons, List.cons_append, specSecs_empty, List.length_cons]
    rw [ih]
    simp [Nat.add_assoc, Nat.add_comm 1]
  | @sec ls ss h mid last hm hl _ ih =>
    intro n tail
    have hshape : List.map Raw.line (Line.header h :: (mid.map Line.data ++ [Line.data last] ++ ls)) ++ tail =
        Raw.line (.header h) :: (mid.map (fun r => Raw.line (.data r)) ++
          Raw.line (.data last) :: (ls.map Raw.line ++ tail)) := by
      simp [Function.comp_def]
    rw [hshape]
    rw [specSecs_header_ok n h _ _ _ (specBody_section mid hm last hl _ (n + 1) [])]
    rw [ih]
    simp only [List.nil_append, List.map_cons, List.cons_append, List.length_cons, List.length_append,
      List.length_map, List.length_nil]
    congr 3
    omega

theorem specSecs_of_parses {good : List Line} {ss : List Sec} (hp : Parses good ss) (n : Nat) :
    specSecs n (good.map Raw.line) = ss.map SpecItem.sec := by
  have := specSecs_parses_append hp n []
  simpa [specSecs_nil] using this

theorem parses_of_specSecs : ∀ (ls : List Raw) (ss : List Sec) (n : Nat),
    specSecs n ls = ss.map SpecItem.sec → ∃ lines, ls = lines.map Raw.line ∧ Parses lines ss := by
  intro ls
  induction hlen : ls.length using Nat.strongRecOn generalizing ls with
  | _ k ih =>
    intro ss n h
    cases ls with
    | nil =>
      rw [specSecs_nil] at h
      cases ss with
      | nil => exact ⟨[], rfl, Parses.nil⟩
      | cons s ss => simp at h
    | cons x rest =>
      cases x with
      | io => rw [specSecs_io] at h; cases ss <;> simp at h
      | unparsable t => rw [specSecs_unparsable] at h; cases ss <;> simp at h
      | line l =>
        cases l with
        | empty =>
          rw [specSecs_empty] at h
          obtain ⟨lines, h1, h2⟩ := ih rest.length (by simp at hlen; omega) rest rfl ss (n + 1) h
          exact ⟨.empty :: lines, by simp [h1], Parses.blank h2⟩
        | data r => rw [specSecs_data] at h; cases ss <;> simp at h
        | header hd =>
          cases hb : specBody (n + 1) rest [] with
          | error er =>
            rcases er with ⟨e, r'⟩
            rw [specSecs_header_err n hd rest e r' hb] at h
            cases ss <;> simp at h
          | ok okv =>
            rcases okv with ⟨ds, rest'⟩
            rw [specSecs_header_ok n hd rest ds rest' hb] at h
            have hlt := (specBody_length (n + 1) rest []).2 ds rest' hb
            cases ss with
            | nil => simp at h
            | cons s ss' =>
              simp only [List.map_cons, List.cons.injEq, SpecItem.sec.injEq] at h
              obtain ⟨hs, htl⟩ := h
              obtain ⟨lines, h1, h2⟩ := ih rest'.length (by simp at hlen; omega) rest' rfl ss' _ htl
              obtain ⟨mid, last, e1, e2, e3, e4⟩ := specBody_ok_shape rest _ _ _ _ hb
              refine ⟨.header hd :: (mid.map Line.data ++ [.data last] ++ lines), ?_, ?_⟩
              · simp [e4, h1, Function.comp_def]
              · have := Parses.sec hd mid last e2 e3 h2
                rw [← hs, e1]
                simpa using this

/-! ### the iterator inside a section against `specBody` -/

theorem go_reading_err (h : Hdr) : ∀ (ls : List Raw) (ds : List Rec) (m : Nat) (e : SecErr) (rest' : List Raw),
    specBody (m + 1) ls ds = .error (e, rest') →
    ∃ k, SecIt.go (some (h, ds)) ⟨.reading, m⟩ ls = (.item (.error e), ⟨.between, k⟩, rest') := by
  intro ls
  induction ls with
  | nil => intro ds m e rest' hb; simp [specBody] at hb; simp [SecIt.go, hb]
  | cons x xs ih =>
    intro ds m e rest' hb
    cases x with
    | io => simp [specBody] at hb; simp [SecIt.go, hb]
    | unparsable t => simp [specBody] at hb; simp [SecIt.go, hb]
    | line l =>
      cases l with
      | empty => simp [specBody] at hb; simp [SecIt.go, getState, hb]
      | header h' => simp [specBody] at hb; simp [SecIt.go, getState, hb]
      | data r =>
        simp only [specBody] at hb
        cases hk : r.kind with
        | term => simp [hk] at hb
        | nonterm =>
          simp only [hk] at hb
          obtain ⟨k, hk'⟩ := ih _ _ _ _ hb
          exact ⟨k, by simp only [SecIt.go, getState, hk]; exact hk'⟩

theorem go_reading_ok (h : Hdr) (ls : List Raw) (m : Nat) (ds : List Rec) (rest' : List Raw)
    (hb : specBody (m + 1) ls [] = .ok (ds, rest')) :
    SecIt.go (some (h, [])) ⟨.reading, m⟩ ls = (.item (.ok ⟨h, ds⟩), ⟨.between, m + ds.length⟩, rest') := by
  obtain ⟨mid, last, e1, e2, e3, e4⟩ := specBody_ok_shape ls _ _ _ _ hb
  have := go_section h last e3 rest' mid e2 [] m
  simp only [List.append_assoc, List.cons_append, List.nil_append] at this
  rw [e4, this, e1]
  simp [Nat.add_assoc]

/-! ### the grammar theorem -/

theorem drain_spec : ∀ (ls : List Raw) (n fuel : Nat), ls.length + 2 ≤ fuel →
    uptoErr (SecIt.drain fuel ⟨.between, n⟩ ls) =
      (specSecs (n + 1) ls).map SpecItem.toOut3 ++
        (if (specSecs (n + 1) ls).all SpecItem.isSec then [.done] else []) := by
  intro ls
  induction hlen : ls.length using Nat.strongRecOn generalizing ls with
  | _ k ih =>
    intro n fuel hf
    cases fuel with
    | zero => omega
    | succ f =>
      cases ls with
      | nil => simp [SecIt.drain, SecIt.next, SecIt.go, specSecs_nil, uptoErr, Out3.isErr]
      | cons x rest =>
        simp only [List.length_cons] at hlen hf
        cases x with
        | io =>
          simp [SecIt.drain, SecIt.next, SecIt.go, specSecs_io, uptoErr, Out3.isErr, SpecItem.toOut3,
            SpecItem.isSec]
        | unparsable t =>
          simp [SecIt.drain, SecIt.next, SecIt.go, specSecs_unparsable, uptoErr, Out3.isErr,
            SpecItem.toOut3, SpecItem.isSec]
        | line l =>
          cases l with
          | empty =>
            have := ih rest.length (by omega) rest rfl (n + 1) (f + 1) (by omega)
            rw [specSecs_empty]
            simp only [SecIt.drain, SecIt.next, SecIt.go, getState] at this ⊢
            exact this
          | data r =>
            simp [SecIt.drain, SecIt.next, SecIt.go, getState, specSecs_data, uptoErr, Out3.isErr,
              SpecItem.toOut3, SpecItem.isSec]
          | header h =>
            have hgo : SecIt.go none ⟨.between, n⟩ (Raw.line (.header h) :: rest) =
                SecIt.go (some (h, [])) ⟨.reading, n + 1⟩ rest := by
              simp only [SecIt.go, getState]
            simp only [SecIt.drain, SecIt.next, hgo]
            cases hb : specBody (n + 1 + 1) rest [] with
            | error er =>
              rcases er with ⟨e, r'⟩
              obtain ⟨k', hk'⟩ := go_reading_err h rest [] (n + 1) e r' hb
              rw [hk', specSecs_header_err (n + 1) h rest e r' hb]
              simp [uptoErr, Out3.isErr, SpecItem.toOut3, SpecItem.isSec]
            | ok okv =>
              rcases okv with ⟨ds, rest'⟩
              have hlt := (specBody_length (n + 1 + 1) rest []).2 ds rest' hb
              rw [go_reading_ok h rest (n + 1) ds rest' hb, specSecs_header_ok (n + 1) h rest ds rest' hb]
              have := ih rest'.length (by omega) rest' rfl (n + 1 + ds.length) f (by omega)
              have hn : n + 1 + 1 + ds.length = n + 1 + ds.length + 1 := by omega
              rw [hn]
              simp only [uptoErr, Out3.isErr, List.map_cons, SpecItem.toOut3, List.all_cons, SpecItem.isSec,
                Bool.true_and, List.cons_append]
              simp only [Bool.false_eq_true, if_false]
              rw [this]

/-! ### every yielded section is a run of consecutive lines -/

theorem go_reading_item_ok (h : Hdr) (s : Sec) (it' : SecIt) (rest : List Raw) :
    ∀ (ls : List Raw) (ds : List Rec) (m : Nat),
    SecIt.go (some (h, ds)) ⟨.reading, m⟩ ls = (.item (.ok s), it', rest) →
    s.hdr = h ∧ ∃ mid last, s.data = ds ++ mid ++ [last] ∧ (∀ r ∈ mid, r.kind = .nonterm) ∧
      last.kind = .term ∧ ls = mid.map (fun r => Raw.line (.data r)) ++ Raw.line (.data last) :: rest := by
  intro ls
  induction ls with
  | nil => intro ds m hg; simp [SecIt.go] at hg
  | cons x xs ih =>
    intro ds m hg
    cases x with
    | io => simp [SecIt.go] at hg
    | unparsable t => simp [SecIt.go] at hg
    | line l =>
      cases l with
      | empty => simp [SecIt.go, getState] at hg
      | header h' => simp [SecIt.go, getState] at hg
      | data r =>
        cases hk : r.kind with
        | term =>
          simp only [SecIt.go, getState, hk] at hg
          cases hds : ds ++ [r] with
          | nil => simp at hds
          | cons d dd =>
            rw [hds] at hg
            simp only [Prod.mk.injEq, Out3.item.injEq, Except.ok.injEq] at hg
            obtain ⟨hs, _, hr⟩ := hg
            subst hs
            exact ⟨rfl, [], r, by simp [hds], by simp, hk, by simp [hr]⟩
        | nonterm =>
          simp only [SecIt.go, getState, hk] at hg
          obtain ⟨h1, mid, last, h2, h3, h4, h5⟩ := ih _ _ hg
          refine ⟨h1, r :: mid, last, by simp [h2], ?_, h4, by simp [h5]⟩
          intro x hx
          rcases List.mem_cons.1 hx with rfl | hx
          · exact hk
          · exact h3 x hx

theorem go_between_item_ok (s : Sec) (it' : SecIt) (rest : List Raw) :
    ∀ (ls : List Raw) (m : Nat),
    SecIt.go none ⟨.between, m⟩ ls = (.item (.ok s), it', rest) →
    ∃ pre mid last, ls = pre ++ Raw.line (.header s.hdr) :: s.data.map (fun r => Raw.line (.data r)) ++ rest ∧
      s.data = mid ++ [last] ∧ (∀ r ∈ mid, r.kind = .nonterm) ∧ last.kind = .term := by
  intro ls
  induction ls with
  | nil => intro m hg; simp [SecIt.go] at hg
  | cons x xs ih =>
    intro m hg
    cases x with
    | io => simp [SecIt.go] at hg
    | unparsable t => simp [SecIt.go] at hg
    | line l =>
      cases l with
      | empty =>
        simp only [SecIt.go, getState] at hg
        obtain ⟨pre, mid, last, h1, h2, h3, h4⟩ := ih _ hg
        exact ⟨Raw.line .empty :: pre, mid, last, by rw [h1]; simp, h2, h3, h4⟩
      | data r => simp [SecIt.go, getState] at hg
      | header h =>
        simp only [SecIt.go, getState] at hg
        obtain ⟨h1, mid, last, h2, h3, h4, h5⟩ := go_reading_item_ok h s it' rest xs [] _ hg
        refine ⟨[], mid, last, ?_, by simpa using h2, h3, h4⟩
        rw [h5, h1, h2]
        simp

/-- `go` returns a suffix of its input -/
theorem go_suffix : ∀ (ls : List Raw) (b : Option (Hdr × List Rec)) (it : SecIt),
    ∃ c, ls = c ++ (SecIt.go b it ls).2.2 := by
  intro ls
  induction ls with
  | nil => intro b it; exact ⟨[], by simp [go_nil_rest]⟩
  | cons x xs ih =>
    intro b it
    cases x with
    | io => exact ⟨[.io], by simp [SecIt.go]⟩
    | unparsable t => exact ⟨[.unparsable t], by simp [SecIt.go]⟩
    | line l =>
      have hcons : ∀ r : Out3 × SecIt × List Raw, (∃ c, xs = c ++ r.2.2) →
          ∃ c, Raw.line l :: xs = c ++ r.2.2 := by
        intro r ⟨c, hc⟩
        exact ⟨Raw.line l :: c, by rw [List.cons_append, ← hc]⟩
      have hxs : ∀ (o : Out3) (i : SecIt), ∃ c, Raw.line l :: xs = c ++ (o, i, xs).2.2 :=
        fun _ _ => ⟨[Raw.line l], rfl⟩
      rcases it with ⟨st, n⟩
      cases st <;> cases l <;> cases b
      all_goals simp only [SecIt.go, getState]
      all_goals (repeat' split)
      all_goals first
        | exact hxs _ _
        | exact hcons _ (ih _ _)
        | exact ⟨[_], rfl⟩

theorem drain_runs : ∀ (fuel : Nat) (ls : List Raw) (it : SecIt), it.st = .between → ∀ (s : Sec),
    Out3.item (.ok s) ∈ SecIt.drain fuel it ls →
    ∃ pre post mid last, ls = pre ++ Raw.line (.header s.hdr) :: s.data.map (fun r => Raw.line (.data r)) ++ post ∧
      s.data = mid ++ [last] ∧ (∀ r ∈ mid, r.kind = .nonterm) ∧ last.kind = .term := by
  intro fuel
  induction fuel with
  | zero => intro ls it _ s hs; simp [SecIt.drain] at hs
  | succ f ih =>
    intro ls it hst s hs
    have hg := go_spec ls none it (by simp [Inv, hst])
    obtain ⟨c, hc⟩ := go_suffix ls none it
    simp only [SecIt.drain, SecIt.next] at hs
    generalize hres : SecIt.go none it ls = res at hg hs hc
    rcases res with ⟨o, it', ls'⟩
    cases o with
    | done => simp at hs
    | panic s' => simp at hs
    | item x =>
      simp only at hg hs hc
      rcases List.mem_cons.1 hs with hx | htl
      · simp only [Out3.item.injEq] at hx
        subst hx
        rcases it with ⟨st, m⟩
        simp only at hst
        subst hst
        obtain ⟨pre, mid, last, h1, h2, h3, h4⟩ := go_between_item_ok s it' ls' ls m hres
        exact ⟨pre, ls', mid, last, h1, h2, h3, h4⟩
      · obtain ⟨pre, post, mid, last, h1, h2, h3, h4⟩ := ih ls' it' hg.2.1 s htl
        refine ⟨c ++ pre, post, mid, last, ?_, h2, h3, h4⟩
        rw [hc, h1]
        simp only [List.append_assoc]

/-! ### the first-error table -/

theorem specSecs_partial (n : Nat) (h : Hdr) (mid : List Rec) (hm : ∀ r ∈ mid, r.kind = .nonterm)
    (tail : List Raw) (e : SecErr) (rest' : List Raw)
    (ht : ∀ acc, specBody (n + 1 + mid.length) tail acc = .error (e, rest')) :
    specSecs n (Raw.line (.header h) :: (mid.map (fun r => Raw.line (.data r)) ++ tail)) = [.err e] := by
  apply specSecs_header_err n h _ e rest'
  rw [specBody_mid tail mid hm]
  exact ht _

end CF
