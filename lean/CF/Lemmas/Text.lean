/-
  Lemmas about numerals: print/parse round trip; cutting a canonical numeral strictly decreases it.
-/
import CF.Model.Text
namespace CF

theorem isDigit_digitChar (d : Nat) (h : d < 10) : isDigit (digitChar d) = true := by
  have : d = 0 ∨ d = 1 ∨ d = 2 ∨ d = 3 ∨ d = 4 ∨ d = 5 ∨ d = 6 ∨ d = 7 ∨ d = 8 ∨ d = 9 := by omega
  rcases this with h|h|h|h|h|h|h|h|h|h <;> subst h <;> decide

theorem digitVal_digitChar (d : Nat) (h : d < 10) : digitVal (digitChar d) = d := by
  have : d = 0 ∨ d = 1 ∨ d = 2 ∨ d = 3 ∨ d = 4 ∨ d = 5 ∨ d = 6 ∨ d = 7 ∨ d = 8 ∨ d = 9 := by omega
  rcases this with h|h|h|h|h|h|h|h|h|h <;> subst h <;> decide

theorem valAcc_append (acc : Nat) (a b : List UInt8) :
    valAcc acc (a ++ b) = (valAcc acc a).bind (fun v => valAcc v b) := by
  induction a generalizing acc with
  | nil => simp [valAcc]
  | cons x xs ih =>
    simp only [List.cons_append, valAcc]
    split
    · exact ih _
    · simp

theorem valAcc_printNat (acc n : Nat) :
    valAcc acc (printNat n) = some (acc * 10 ^ (printNat n).length + n) := by
  induction n using Nat.strongRecOn generalizing acc with
  | _ n ih =>
    unfold printNat
    split
    · rename_i h
      simp [valAcc, isDigit_digitChar n h, digitVal_digitChar n h]
    · rename_i h
      rw [valAcc_append, ih (n/10) (by omega)]
      simp [valAcc, isDigit_digitChar (n%10) (Nat.mod_lt _ (by omega)),
            digitVal_digitChar (n%10) (Nat.mod_lt _ (by omega)), Nat.pow_succ]
      have := Nat.div_add_mod n 10
      rw [Nat.add_mul, Nat.mul_assoc]
      omega

theorem printNat_ne_nil (n : Nat) : printNat n ≠ [] := by
  unfold printNat; split <;> simp

theorem head_printNat_ne_plus (n : Nat) : ∀ r, printNat n ≠ 43 :: r := by
  induction n using Nat.strongRecOn with
  | _ n ih =>
    intro r
    unfold printNat
    split
    · rename_i h
      intro hc
      have hd := isDigit_digitChar n h
      simp at hc
      rw [hc.1] at hd
      exact absurd hd (by decide)
    · rename_i h
      intro hc
      have hne := printNat_ne_nil (n/10)
      cases hp : printNat (n/10) with
      | nil => exact hne hp
      | cons x xs =>
        rw [hp] at hc
        simp at hc
        exact ih (n/10) (by omega) xs (by rw [hp, hc.1])

theorem parse_print (n : Nat) : parseNat (printNat n) = some n := by
  have h1 := printNat_ne_nil n
  have h2 := head_printNat_ne_plus n
  have h3 := valAcc_printNat 0 n
  unfold parseNat
  split
  · exact absurd ‹_› h1
  · exact absurd ‹_› (h2 _)
  · exact absurd ‹_› (h2 _)
  · simpa using h3

def valOf (ds : List UInt8) : Nat := ds.foldl (fun acc b => acc * 10 + digitVal b) 0

theorem foldl_val_append (a b : List UInt8) (acc : Nat) :
    (a ++ b).foldl (fun acc b => acc * 10 + digitVal b) acc =
      b.foldl (fun acc b => acc * 10 + digitVal b) (a.foldl (fun acc b => acc * 10 + digitVal b) acc) := by
  simp [List.foldl_append]

theorem foldl_ge (b : List UInt8) (acc : Nat) :
    acc * 10 ^ b.length ≤ b.foldl (fun acc b => acc * 10 + digitVal b) acc := by
  induction b generalizing acc with
  | nil => simp
  | cons x xs ih =>
    simp only [List.foldl_cons, List.length_cons]
    have := ih (acc * 10 + digitVal x)
    calc acc * 10 ^ (xs.length + 1) = (acc * 10) * 10 ^ xs.length := by rw [Nat.pow_succ]; ac_rfl
      _ ≤ (acc * 10 + digitVal x) * 10 ^ xs.length := Nat.mul_le_mul_right _ (Nat.le_add_right _ _)
      _ ≤ _ := this

/-- C08's arithmetic core: cutting a canonical numeral (first digit non-zero) strictly decreases it. -/
theorem prefix_lt (pre suf : List UInt8) (hpre : pre ≠ []) (hsuf : suf ≠ [])
    (hpos : 0 < valOf pre) : valOf pre < valOf (pre ++ suf) := by
  unfold valOf
  rw [foldl_val_append]
  have h := foldl_ge suf (pre.foldl (fun acc b => acc * 10 + digitVal b) 0)
  have hlen : 10 ≤ 10 ^ suf.length := by
    cases suf with
    | nil => exact absurd rfl hsuf
    | cons x xs => simp only [List.length_cons, Nat.pow_succ]; have := Nat.one_le_two_pow (n := 0); have : 1 ≤ 10 ^ xs.length := Nat.one_le_pow _ _ (by omega); omega
  unfold valOf at hpos
  generalize pre.foldl (fun acc b => acc * 10 + digitVal b) 0 = v at *
  have : v * 10 ≤ v * 10 ^ suf.length := Nat.mul_le_mul_left _ hlen
  omega

end CF
