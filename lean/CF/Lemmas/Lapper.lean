/-
  Lemmas about the `rust-lapper` model: the binary search returns the partition point and never
  indexes out of bounds; `find` returns exactly the overlapping intervals in index order.
-/
import CF.Model.Lapper
namespace Lap
variable {α : Type}

def SortedByStart (l : List (Iv α)) : Prop := l.Pairwise (fun a b => a.start ≤ b.start)

theorem scan_eq_filter (s e : Nat) (l : List (Iv α)) (h : SortedByStart l) :
    scan s e l = l.filter (·.overlap s e) := by
  induction l with
  | nil => simp [scan]
  | cons i rest ih =>
    have hs : SortedByStart rest := (List.pairwise_cons.mp h).2
    have hi := (List.pairwise_cons.mp h).1
    simp only [scan]
    split
    · simp [*, ih hs]
    · rename_i hno
      split
      · rename_i hge
        -- everything after also has start ≥ e
        simp only [hno, List.filter_cons]
        simp
        intro j hj
        have := hi j hj
        simp [Iv.overlap]
        omega
      · simp [hno, ih hs]

/-- lower bound spec: with sortedness, result = count of elements with start < key,
    and never panics when low + size ≤ length. -/
theorem lowerBound_spec (key : Nat) (ivs : List (Iv α)) (hs : SortedByStart ivs) :
    ∀ size low, low + size ≤ ivs.length →
      (∀ j, j < low → ∀ v, ivs[j]? = some v → v.start < key) →
      (∀ j, low + size ≤ j → ∀ v, ivs[j]? = some v → key ≤ v.start) →
      ∃ r, lowerBound key ivs size low = some r ∧ r ≤ ivs.length ∧
        (∀ j, j < r → ∀ v, ivs[j]? = some v → v.start < key) ∧
        (∀ j, r ≤ j → ∀ v, ivs[j]? = some v → key ≤ v.start) := by
  intro size
  induction size using Nat.strongRecOn with
  | _ size ih =>
    intro low hlen hlo hhi
    cases size with
    | zero =>
      refine ⟨low, by simp [lowerBound], by omega, hlo, ?_⟩
      intro j hj v hv; exact hhi j (by omega) v hv
    | succ n =>
      unfold lowerBound
      simp only
      have hprobe : low + (n+1)/2 < ivs.length := by omega
      have hget : ivs[low + (n+1)/2]? = some ivs[low + (n+1)/2] := by simp [hprobe]
      rw [hget]
      simp only
      have sorted_idx : ∀ (a b : Nat) (va vb : Iv α), a ≤ b → ivs[a]? = some va → ivs[b]? = some vb → va.start ≤ vb.start := by
        intro a b va vb hab ha hb
        rcases Nat.lt_or_eq_of_le hab with hlt | heq
        · have hb' : b < ivs.length := by
            rcases List.getElem?_eq_some_iff.mp hb with ⟨h, _⟩; exact h
          have ha' : a < ivs.length := by omega
          have := List.pairwise_iff_getElem.mp hs a b ha' hb' hlt
          rcases List.getElem?_eq_some_iff.mp ha with ⟨_, e1⟩
          rcases List.getElem?_eq_some_iff.mp hb with ⟨_, e2⟩
          subst e1; subst e2; exact this
        · subst heq; rw [ha] at hb; cases hb; exact Nat.le_refl _
      split
      · rename_i hlt
        apply ih ((n+1)/2) (by omega) (low + (n + 1 - (n+1)/2)) (by omega)
        · intro j hj v hv
          by_cases hjp : j ≤ low + (n+1)/2
          · have := sorted_idx j _ v _ hjp hv hget; omega
          · omega
        · intro j hj v hv
          exact hhi j (by omega) v hv
      · rename_i hge
        apply ih ((n+1)/2) (by omega) low (by omega) hlo
        intro j hj v hv
        have := sorted_idx _ j _ v hj hget hv
        omega

theorem ivLe_trans (a b c : Iv α) : ivLe a b = true → ivLe b c = true → ivLe a c = true := by
  simp only [ivLe, Bool.or_eq_true, Bool.and_eq_true, decide_eq_true_eq]; intro h1 h2; omega

theorem ivLe_total (a b : Iv α) : (ivLe a b || ivLe b a) = true := by
  simp only [ivLe, Bool.or_eq_true, Bool.and_eq_true, decide_eq_true_eq]; omega

theorem sorted_new (l : List (Iv α)) : SortedByStart (Lapper.new l).ivs := by
  have h := List.pairwise_mergeSort ivLe_trans ivLe_total l
  simp only [Lapper.new, SortedByStart]
  refine List.Pairwise.imp ?_ h
  intro a b hab
  simp only [ivLe, Bool.or_eq_true, Bool.and_eq_true, decide_eq_true_eq] at hab; omega

theorem le_maxLen (l : List (Iv α)) (i : Iv α) (h : i ∈ l) : i.stop - i.start ≤ maxLen l := by
  induction l with
  | nil => cases h
  | cons x xs ih =>
    simp only [maxLen]
    rcases List.mem_cons.mp h with rfl | h'
    · exact Nat.le_max_left _ _
    · exact Nat.le_trans (ih h') (Nat.le_max_right _ _)

theorem filter_take_none (l : List (Iv α)) (k s e : Nat)
    (h : ∀ j, j < k → ∀ v, l[j]? = some v → v.overlap s e = false) :
    (l.take k).filter (·.overlap s e) = [] := by
  rw [List.filter_eq_nil_iff]
  intro v hv
  rcases List.mem_iff_getElem?.mp hv with ⟨j, hj⟩
  have hjk : j < k := by
    have hlen : j < (l.take k).length := (List.getElem?_eq_some_iff.mp hj).1
    rw [List.length_take] at hlen; omega
  rw [List.getElem?_take] at hj
  simp only [hjk, ite_true] at hj
  simp [h j hjk v hj]

/-- find returns exactly the overlapping intervals, in index order — for every list, every
    longest block, every query (the C02 search-window obligation). -/
theorem find_eq_filter (l : List (Iv α)) (s e : Nat) :
    (Lapper.new l).find s e = some ((Lapper.new l).ivs.filter (·.overlap s e)) := by
  have hs := sorted_new l
  obtain ⟨r, hr, hrlen, hbefore, hafter⟩ :=
    lowerBound_spec (s - (Lapper.new l).maxLen) (Lapper.new l).ivs hs (Lapper.new l).ivs.length 0
      (by omega) (by intro j hj; omega) (by
        intro j hj v hv
        have : j < (Lapper.new l).ivs.length := (List.getElem?_eq_some_iff.mp hv).1
        omega)
  simp only [Lapper.find, hr]
  congr 1
  have hsplit : (Lapper.new l).ivs = (Lapper.new l).ivs.take r ++ (Lapper.new l).ivs.drop r := (List.take_append_drop r _).symm
  have hdrop_sorted : SortedByStart ((Lapper.new l).ivs.drop r) := by
    have := hs; unfold SortedByStart at *; rw [hsplit] at this
    exact (List.pairwise_append.mp this).2.1
  rw [scan_eq_filter _ _ _ hdrop_sorted]
  conv => rhs; rw [hsplit, List.filter_append]
  rw [filter_take_none _ r s e, List.nil_append]
  intro j hj v hv
  have hlt := hbefore j hj v hv
  have hmem : v ∈ (Lapper.new l).ivs := List.mem_of_getElem? hv
  have hlen := le_maxLen _ v hmem
  have : (Lapper.new l).maxLen = maxLen (Lapper.new l).ivs := rfl
  simp only [Iv.overlap, Bool.and_eq_false_iff, decide_eq_false_iff_not]
  omega

end Lap
