/-
  `u64::from_str` as std writes it — digit by digit with `checked_mul(10)` and `checked_add(digit)`,
  failing at the first overflow or invalid digit — and its equivalence with the model's `parseU64`
  (which computes the unbounded value and compares once).
-/
import CF.Model.Text
namespace CF

/-- std's loop: `result = result.checked_mul(10)?; result = result.checked_add(digit)?` -/
def valAccChecked (acc : Nat) : List UInt8 → Option Nat
  | [] => some acc
  | b :: bs =>
    if isDigit b then
      if acc * 10 ≤ U64_MAX then
        if acc * 10 + digitVal b ≤ U64_MAX then valAccChecked (acc * 10 + digitVal b) bs else none
      else none
    else none

/-- `u64::from_str`: empty and a lone sign are errors; one leading `+` is allowed -/
def parseU64Checked (s : List UInt8) : Option Nat :=
  match s with
  | [] => none
  | [43] => none
  | 43 :: rest => valAccChecked 0 rest
  | _ => valAccChecked 0 s

/-- the accumulator only grows -/
theorem valAcc_ge_acc (bs : List UInt8) : ∀ (acc v : Nat), valAcc acc bs = some v → acc ≤ v := by
  induction bs with
  | nil =>
    intro acc v hv
    simp only [valAcc, Option.some.injEq] at hv
    omega
  | cons b bs ih =>
    intro acc v hv
    simp only [valAcc] at hv
    split at hv
    · have := ih _ _ hv
      omega
    · cases hv

/-- once the accumulator is out of range, "compute, then compare" fails -/
theorem valAcc_overflow (bs : List UInt8) (acc : Nat) (h : ¬ acc ≤ U64_MAX) :
    (match valAcc acc bs with | some v => if v ≤ U64_MAX then some v else none | none => none)
      = (none : Option Nat) := by
  cases hv : valAcc acc bs with
  | none => rfl
  | some v =>
    have := valAcc_ge_acc bs acc v hv
    have hnv : ¬ v ≤ U64_MAX := by omega
    simp only [hnv, if_false]

/-- the digit loop with per-step overflow checks agrees with "compute, then compare" -/
theorem valAccChecked_eq (bs : List UInt8) (acc : Nat) (h : acc ≤ U64_MAX) :
    valAccChecked acc bs = (match valAcc acc bs with | some v => if v ≤ U64_MAX then some v else none | none => none) := by
  induction bs generalizing acc with
  | nil =>
    simp only [valAccChecked, valAcc, h, if_true]
  | cons b bs ih =>
    simp only [valAccChecked, valAcc]
    by_cases hd : isDigit b = true
    · simp only [hd, if_true]
      by_cases h2 : acc * 10 + digitVal b ≤ U64_MAX
      · have h1 : acc * 10 ≤ U64_MAX := by omega
        simp only [h1, h2, if_true]
        exact ih _ h2
      · rw [valAcc_overflow bs _ h2]
        by_cases h1 : acc * 10 ≤ U64_MAX
        · simp only [h1, h2, if_true, if_false]
        · simp only [h1, if_false]
    · simp only [hd]
      rfl

/-- **the model's numeral parser is std's algorithm** (as far as `Ok(value)` / `Err` goes) -/
theorem parseU64_eq_checked (s : List UInt8) : parseU64 s = parseU64Checked s := by
  unfold parseU64
  match s with
  | [] => rfl
  | [43] => rfl
  | 43 :: b :: rest =>
    simp only [parseNat, parseU64Checked]
    exact (valAccChecked_eq _ 0 (Nat.zero_le _)).symm
  | b :: rest =>
    by_cases hb : b = 43
    · subst hb
      cases rest with
      | nil => rfl
      | cons c rest =>
        simp only [parseNat, parseU64Checked]
        exact (valAccChecked_eq _ 0 (Nat.zero_le _)).symm
    · have e1 : parseNat (b :: rest) = valAcc 0 (b :: rest) := by
        unfold parseNat
        split <;> simp_all
      have e2 : parseU64Checked (b :: rest) = valAccChecked 0 (b :: rest) := by
        unfold parseU64Checked
        split <;> simp_all
      rw [e1, e2]
      exact (valAccChecked_eq _ 0 (Nat.zero_le _)).symm

end CF
