/-
  Helper lemmas for the byte-level corollaries (CF/Props/Bytes.lean): pieces of `splitLines`
  contain LF only as their last byte, fields of `splitOn` are made of bytes of the text, the shape
  of parsed sections, and the canonical file of sections whose block sizes need not be positive.
-/
import CF.Props.C03
import CF.Props.C12
import CF.Props.C13
import CF.Props.C14
import CF.Lemmas.Trunc
import CF.Lemmas.TruncMid
namespace CF

/-! ### pieces of `splitLines` -/

theorem splitLinesAux_LF : ∀ (bs cur : List UInt8), LF ∉ cur →
    ∀ p ∈ splitLinesAux bs cur, (∃ q, p = q ++ [LF] ∧ LF ∉ q) ∨ LF ∉ p := by
  intro bs
  induction bs with
  | nil =>
    intro cur hcur p hp
    simp only [splitLinesAux] at hp
    split at hp
    · cases hp
    · simp only [List.mem_singleton] at hp
      subst hp
      exact Or.inr hcur
  | cons b bs ih =>
    intro cur hcur p hp
    simp only [splitLinesAux] at hp
    split at hp
    · rename_i hb
      rcases List.mem_cons.1 hp with h | h
      · subst h; subst hb
        exact Or.inl ⟨cur, rfl, hcur⟩
      · exact ih [] (by simp) p h
    · rename_i hb
      refine ih (cur ++ [b]) ?_ p hp
      simp only [List.mem_append, List.mem_singleton, not_or]
      exact ⟨hcur, fun e => hb e.symm⟩

theorem splitLines_LF (bs : List UInt8) :
    ∀ p ∈ splitLines bs, (∃ q, p = q ++ [LF] ∧ LF ∉ q) ∨ LF ∉ p :=
  splitLinesAux_LF bs [] (by simp)

theorem stripEol_no_LF (p : List UInt8) (h : (∃ q, p = q ++ [LF] ∧ LF ∉ q) ∨ LF ∉ p) :
    LF ∉ stripEol p := by
  rcases h with ⟨q, rfl, hq⟩ | h
  · by_cases hc : q.getLast? = some CR
    · have : stripEol (q ++ [LF]) = q.dropLast := by simp [stripEol, hc]
      rw [this]
      exact fun hm => hq (List.dropLast_subset q hm)
    · rw [stripEol_LF q hc]; exact hq
  · rw [stripEol_of_ne p (getLast?_ne_of_not_mem p LF h)]; exact h

theorem linesOfBytes_no_LF (v : List UInt8 → Bool) (bs : List UInt8) :
    ∀ n t, RawRes.line n t ∈ linesOfBytes v bs → LF ∉ t := by
  intro n t h
  unfold linesOfBytes at h
  obtain ⟨p, hp, he⟩ := List.mem_map.1 h
  unfold lineRes at he
  split at he
  · simp only [RawRes.line.injEq] at he
    rw [← he.2]
    exact stripEol_no_LF p (splitLines_LF bs p hp)
  · cases he

/-! ### fields of `splitOn` -/

theorem splitOn_mem (sep : UInt8) : ∀ (t : List UInt8), ∀ f ∈ splitOn sep t, ∀ b ∈ f, b ∈ t := by
  intro t
  induction t with
  | nil =>
    intro f hf b hb
    simp only [splitOn, List.mem_singleton] at hf
    subst hf; cases hb
  | cons x xs ih =>
    intro f hf b hb
    by_cases hx : x = sep
    · subst hx
      rw [splitOn_cons_sep] at hf
      rcases List.mem_cons.1 hf with h | h
      · subst h; cases hb
      · exact List.mem_cons_of_mem _ (ih f h b hb)
    · cases hs : splitOn sep xs with
      | nil => exact absurd hs (splitOn_ne_nil _ _)
      | cons g gs =>
        rw [splitOn_cons_of_ne hx hs] at hf
        rw [hs] at ih
        rcases List.mem_cons.1 hf with h | h
        · subst h
          rcases List.mem_cons.1 hb with h' | h'
          · subst h'; exact List.mem_cons_self ..
          · exact List.mem_cons_of_mem _ (ih g (List.mem_cons_self ..) b h')
        · exact List.mem_cons_of_mem _ (ih f (List.mem_cons_of_mem _ h) b hb)

/-- the contig names of a header parsed from a text without LF contain no LF -/
theorem header_names_no_LF (t : List UInt8) (h : Hdr) (hp : Hdr.parse t = .ok h) (hlf : LF ∉ t) :
    LF ∉ h.ref.name ∧ LF ∉ h.qry.name := by
  obtain ⟨p1, p2, p3, p4, p5, p6, p7, p8, p9, p10, p11, p12, hs, hsc, hr, hq, hid, h1, h2⟩ :=
    Hdr.parse_inv hp
  obtain ⟨r0, _⟩ := Seq.ofParts_inv hr
  obtain ⟨q0, _⟩ := Seq.ofParts_inv hq
  have hm := splitOn_mem SP t
  rw [hs] at hm
  rw [r0, q0]
  exact ⟨fun hh => hlf (hm p2 (by simp) LF hh), fun hh => hlf (hm p7 (by simp) LF hh)⟩

/-! ### shape of parsed sections -/

theorem parses_shape {lines : List Line} {ss : List Sec} (hp : Parses lines ss) :
    ∀ s ∈ ss, ∃ mid last, s.data = mid ++ [last] ∧ (∀ r ∈ mid, r.kind = .nonterm) ∧ last.kind = .term := by
  induction hp with
  | nil => intro s hs; cases hs
  | blank _ ih => exact ih
  | @sec ls ss h mid last hm hl _ ih =>
    intro s hs
    rcases List.mem_cons.1 hs with rfl | hs
    · exact ⟨mid, last, rfl, hm, hl⟩
    · exact ih s hs

/-! ### the canonical file, without positivity of block sizes -/

/-- `CanonSecs` without `sizes` -/
structure CanonSecsW (ss : List Sec) : Prop where
  valid : ∀ s ∈ ss, s.Valid
  shape : ∀ s ∈ ss, ∃ mid last, s.data = mid ++ [last] ∧ (∀ r ∈ mid, r.kind = .nonterm) ∧ last.kind = .term
  sums : ∀ s ∈ ss, s.sumsMatch
  names : ∀ s ∈ ss, SP ∉ s.hdr.ref.name ∧ SP ∉ s.hdr.qry.name ∧ LF ∉ s.hdr.ref.name ∧ LF ∉ s.hdr.qry.name
  noconf : noConflict ss

theorem canonW_good {ss : List Sec} (hc : CanonSecsW ss) : ∀ l ∈ canonLines ss, GoodLine l := by
  intro l hl
  rcases mem_canonLines hl with h | ⟨s, hs, h | ⟨r, hr, h⟩⟩
  · subst h; exact goodLine_empty
  · subst h; exact goodLine_header _ (hc.valid s hs).1 (hc.names s hs)
  · subst h; exact goodLine_data _ ((hc.valid s hs).2 r hr)

theorem canonW_valid {ss : List Sec} (hc : CanonSecsW ss) : ∀ r ∈ (canonLines ss).map Raw.line, r.Valid := by
  intro x hx
  obtain ⟨l, hl, rfl⟩ := List.mem_map.1 hx
  rcases mem_canonLines hl with h | ⟨s, hs, h | ⟨r, hr, h⟩⟩
  · subst h; trivial
  · subst h; exact (hc.valid s hs).1
  · subst h; exact (hc.valid s hs).2 r hr

theorem canonW_wf {ss : List Sec} (hc : CanonSecsW ss) : WFFile ((canonLines ss).map Raw.line) ss :=
  ⟨canonLines ss, rfl, canon_parses ss hc.shape, hc.sums, hc.noconf⟩

/-- the canonical file reads back as its lines -/
theorem canonW_raws (v : List UInt8 → Bool) (hv : ∀ bs, v bs = true) {ss : List Sec} (hc : CanonSecsW ss) :
    (rawLines v [.chunk (canonBytes ss)]).map Raw.ofRes = (canonLines ss).map Raw.line := by
  have hb : canonBytes ss = encLF ((canonLines ss).map printLine) := encodeLines_LF_true _
  have h := raws_enc v (canonLines ss) (canonW_good hc) [] (by simp)
  simp only [List.append_nil, hv, if_true] at h
  rw [C12_lines_spec v _ (by simp [chunkOnly])]
  simp only [bytesOf, List.append_nil]
  rw [hb, h]

/-- the sections of a well-formed file read from bytes satisfy everything in `CanonSecs` but `sizes` -/
theorem wf_canonW (v : List UInt8 → Bool) (src : List Ev) (hc : chunkOnly src) (ss : List Sec)
    (hw : WFFile ((rawLines v src).map Raw.ofRes) ss) : CanonSecsW ss := by
  obtain ⟨lines, hl, hp, hsums, hnc⟩ := hw
  have hval : ∀ r ∈ (rawLines v src).map Raw.ofRes, r.Valid := by
    intro r hr
    obtain ⟨x, _, rfl⟩ := List.mem_map.1 hr
    exact C14_raw x
  refine ⟨?_, parses_shape hp, hsums, ?_, hnc⟩
  · intro s hs
    obtain ⟨h1, h2⟩ := parses_mem hp s hs
    constructor
    · have hmem : Raw.line (.header s.hdr) ∈ (rawLines v src).map Raw.ofRes := by
        rw [hl]; exact List.mem_map.2 ⟨_, h1, rfl⟩
      exact hval _ hmem
    · intro r hr
      have hmem : Raw.line (.data r) ∈ (rawLines v src).map Raw.ofRes := by
        rw [hl]; exact List.mem_map.2 ⟨_, h2 r hr, rfl⟩
      exact hval _ hmem
  · intro s hs
    obtain ⟨h1, _⟩ := parses_mem hp s hs
    have hmem : Raw.line (.header s.hdr) ∈ (rawLines v src).map Raw.ofRes := by
      rw [hl]; exact List.mem_map.2 ⟨_, h1, rfl⟩
    obtain ⟨res, hres, he⟩ := List.mem_map.1 hmem
    cases res with
    | io => simp [Raw.ofRes] at he
    | utf8 => simp [Raw.ofRes] at he
    | line n t =>
      have hlf : LF ∉ t := by
        have := linesOfBytes_no_LF v (bytesOf src) n t
        rw [← C12_lines_spec v src hc] at this
        exact this hres
      cases hpl : Line.parse t with
      | error e => simp [Raw.ofRes, hpl] at he
      | ok l =>
        simp only [Raw.ofRes, hpl, Raw.line.injEq] at he
        subst he
        rcases Line.parse_inv hpl with ⟨_, h⟩ | ⟨h', he', hh⟩ | ⟨r, h, _⟩
        · cases h
        · simp only [Line.header.injEq] at he'
          subst he'
          have a := C14_header_names t _ hh
          have b := header_names_no_LF t _ hh hlf
          exact ⟨a.1, a.2, b.1, b.2⟩
        · cases h

end CF
