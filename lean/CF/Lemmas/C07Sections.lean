import CF.Lemmas.Sections
import CF.Model.Ops
import CF.Lemmas.SectionsBound
namespace CF

/-- The iterator's resting state is `between` after every call, whatever it returned (this is the
    invariant the repaired code restores; `SecIt.new` starts in it). -/
theorem C07_sections_rest_state (ls : List Raw) (it : SecIt) (hst : it.st = .between) :
    (it.next ls).2.1.st = .between := by
  exact (go_spec ls none it (by simp [Inv, hst])).2.1

/-- Draining the section iterator — every history of `next()` calls, also past errors — yields at
    most one item per input line plus one, and then ends (`None`). -/
theorem C07_sections_bound (ls : List Raw) (it : SecIt) (hst : it.st = .between) (fuel : Nat)
    (hf : ls.length + 2 ≤ fuel) :
    (SecIt.drain fuel it ls).getLast? = some .done ∧
    ((SecIt.drain fuel it ls).filter (fun x => match x with | .item _ => true | _ => false)).length ≤ ls.length + 1 := by
  have hb := drain_bound ls it fuel hst hf
  have := drain_items_bound ls it fuel hst
  rw [filter_isItem _ (fun x => by cases x <;> rfl)]
  exact ⟨hb.2.1, this⟩

/-- …for every fuel (the caller may stop early): never more than `lines + 1` items. -/
theorem C07_sections_bound_any (ls : List Raw) (it : SecIt) (hst : it.st = .between) (fuel : Nat) :
    ((SecIt.drain fuel it ls).filter (fun x => match x with | .item _ => true | _ => false)).length ≤ ls.length + 1 := by
  rw [filter_isItem _ (fun x => by cases x <;> rfl)]
  exact drain_items_bound ls it fuel hst

/-- at end of input `None` is sticky -/
theorem C07_sections_done_sticky (it : SecIt) (hst : it.st = .between) :
    (it.next []).1 = .done ∧ (it.next []).2.1.st = .between ∧ (it.next []).2.2 = [] := by
  rcases it with ⟨st, n⟩
  simp only at hst
  subst hst
  simp [SecIt.next, SecIt.go]

/-- `lines()`: at most one item per remaining line; every call that yields an item consumes a line -/
theorem C07_lines_bound (k : Nat) (rs : List RawRes) :
    ((linesNext k rs).1.filter Option.isSome).length ≤ rs.length ∧
    (linesNext k rs).2.length + ((linesNext k rs).1.filter Option.isSome).length = rs.length := by
  have := linesNext_count k rs
  exact ⟨by omega, this⟩

/-- no `next()` call of a section iterator at rest panics (C06, sections part) -/
theorem C06_sections_no_panic (ls : List Raw) (it : SecIt) (hst : it.st = .between) (fuel : Nat) :
    ∀ s, Out3.panic s ∉ SecIt.drain fuel it ls := by
  exact drain_no_panic fuel ls it hst

end CF
