/-
  `lift_refines`: the answer of a built machine is the specification's answer, and what that
  answer means at the level of aligned bases.
-/
import CF.Props.C03
import CF.Lemmas.RefineAux
namespace CF

/-- the pairs of an answer (`None` ↦ no pairs) -/
def liftL (m : Machine) (iv : Interval) : List Pair :=
  match m.liftover iv with
  | .ok (some ps) => ps
  | _ => []

/-- a base lies in an interbase interval `[lo, hi)` on its contig and strand -/
def Interval.hasBase (i : Interval) (b : Base) : Prop :=
  b.contig = i.contig ∧ b.strand = i.strand ∧ i.lo ≤ b.pos ∧ b.pos < i.hi

/-- the base pairings an answer contains -/
def basePairs (ps : List Pair) (x y : Base) : Prop :=
  ∃ p ∈ ps, ∃ k, k < p.ref.count ∧ x = p.ref.base k ∧ y = p.qry.base k

/-- the interval pair of a local block of a section -/
def Sec.pairOf (s : Sec) (b : Nat × Nat × Nat) : Pair := ⟨s.hdr.ref.ivOf b.1 b.2.2, s.hdr.qry.ivOf b.2.1 b.2.2⟩

/-- **Refinement of `liftover`.** For the machine built from a well-formed file: the answer for every
    (well-formed) interval is `None` when no block hits it, otherwise the hitting blocks, each
    restricted to the interval, each exactly once (a permutation of `hits` in file order), ordered
    by forward start of the reference interval. Never an error, never a panic. -/
theorem lift_refines (ls : List Raw) (hv : ∀ r ∈ ls, r.Valid) (ss : List Sec) (hw : WFFile ls ss)
    (m : Machine) (hb : buildL ls = .ok m) (iv : Interval) (hiv : iv.WF) :
    ∃ sel : List Pair, sel.Perm ((fileBlocks ss).filter (·.hit iv)) ∧
      sel.Pairwise (fun a b => a.ref.lo < b.ref.lo ∨ (a.ref.lo = b.ref.lo ∧ a.ref.hi ≤ b.ref.hi)) ∧
      m.liftover iv = .ok (if sel = [] then none else some (sel.map (restrict iv))) := by
  obtain ⟨hbl, _, _, hsec⟩ := C03_machine ls hv ss hw m hb
  have hwf : ∀ p ∈ m.blocks, p.WF := by
    intro p hp
    rw [hbl] at hp
    obtain ⟨s, hs, hps⟩ := List.mem_flatMap.1 hp
    exact (blocks_wf s (hsec s hs).1 (hsec s hs).2 p hps).1
  refine ⟨m.sel iv, ?_, sel_sorted m iv, liftover_spec m iv hiv hwf⟩
  rw [← hbl]
  exact sel_perm m iv

theorem liftL_perm_hits (ls : List Raw) (hv : ∀ r ∈ ls, r.Valid) (ss : List Sec) (hw : WFFile ls ss)
    (m : Machine) (hb : buildL ls = .ok m) (iv : Interval) (hiv : iv.WF) :
    (liftL m iv).Perm (hits ss iv) := by
  obtain ⟨sel, hp, _, hl⟩ := lift_refines ls hv ss hw m hb iv hiv
  unfold liftL hits
  rw [hl]
  by_cases hs : sel = []
  · subst hs
    rw [hp.symm.eq_nil]
    exact List.Perm.refl _
  · simp only [hs, if_false]
    exact hp.map _

/-- what `hit` says for the pair of a local block -/
theorem hit_pairOf (s : Sec) (b : Nat × Nat × Nat) (iv : Interval) :
    (s.pairOf b).hit iv = true ↔ (s.hdr.ref.name = iv.contig ∧ s.hdr.ref.strand = iv.strand ∧
      (s.hdr.ref.ivOf b.1 b.2.2).lo < iv.hi ∧ (s.hdr.ref.ivOf b.1 b.2.2).hi > iv.lo) := by
  show (decide ((s.hdr.ref.ivOf b.1 b.2.2).contig = iv.contig) && decide ((s.hdr.ref.ivOf b.1 b.2.2).strand = iv.strand) &&
      (decide ((s.hdr.ref.ivOf b.1 b.2.2).lo < iv.hi) && decide ((s.hdr.ref.ivOf b.1 b.2.2).hi > iv.lo))) = true ↔ _
  have e1 : (s.hdr.ref.ivOf b.1 b.2.2).contig = s.hdr.ref.name := rfl
  have e2 : (s.hdr.ref.ivOf b.1 b.2.2).strand = s.hdr.ref.strand := rfl
  rw [e1, e2]
  simp only [Bool.and_eq_true, decide_eq_true_eq, and_assoc]

/-- the restriction of a hitting block as a sub-range `[o1, o2)` of both sides, and which local
    bases of the block the range selects -/
theorem restrict_pairOf (s : Sec) (hv : s.hdr.Valid) (hm : s.sumsMatch)
    (b : Nat × Nat × Nat) (hb : b ∈ localBlocks s.hdr.ref.start s.hdr.qry.start s.data)
    (iv : Interval) (hiv : iv.WF) (hhit : (s.pairOf b).hit iv = true) :
    ∃ o1 o2, o1 ≤ o2 ∧ o2 ≤ b.2.2 ∧ b.1 + b.2.2 ≤ s.hdr.ref.size ∧ b.2.1 + b.2.2 ≤ s.hdr.qry.size ∧
      restrict iv (s.pairOf b) =
        ⟨(s.hdr.ref.ivOf b.1 b.2.2).sub o1 o2, (s.hdr.qry.ivOf b.2.1 b.2.2).sub o1 o2⟩ ∧
      ∀ k, k < b.2.2 → ((iv.lo ≤ s.hdr.ref.fwd (b.1 + k) ∧ s.hdr.ref.fwd (b.1 + k) < iv.hi) ↔ (o1 ≤ k ∧ k < o2)) := by
  have hbd := localBlocks_bounds s hm b hb
  have hr : b.1 + b.2.2 ≤ s.hdr.ref.size := Nat.le_trans hbd.2.1 hv.1.2.1
  have hq : b.2.1 + b.2.2 ≤ s.hdr.qry.size := Nat.le_trans hbd.2.2.2 hv.2.1.2.1
  have hh := (hit_pairOf s b iv).1 hhit
  have ho := ivOf_offsets s.hdr.ref b.1 b.2.2 iv hr hiv.1 hh.2.2.1 hh.2.2.2
  exact ⟨_, _, ho.1, ho.2.1, hr, hq, rfl, ho.2.2⟩

/-- what a restricted block means: for a block `b` of a valid section whose records add up, and an
    interval it hits, the base pairings of `restrict iv (pairOf b)` are exactly the pairings the
    block aligns whose reference base lies in the interval -/
theorem restrict_bases (s : Sec) (hv : s.hdr.Valid) (hm : s.sumsMatch)
    (b : Nat × Nat × Nat) (hb : b ∈ localBlocks s.hdr.ref.start s.hdr.qry.start s.data)
    (iv : Interval) (hiv : iv.WF) (hhit : (s.pairOf b).hit iv = true) (x y : Base) :
    (AlignedBy s b x y ∧ iv.hasBase x) ↔
      ∃ k, k < (restrict iv (s.pairOf b)).ref.count ∧
        x = (restrict iv (s.pairOf b)).ref.base k ∧ y = (restrict iv (s.pairOf b)).qry.base k := by
  obtain ⟨o1, o2, h12, h2n, hr, hq, he, hiff⟩ := restrict_pairOf s hv hm b hb iv hiv hhit
  have hh := (hit_pairOf s b iv).1 hhit
  rw [he]
  simp only [ivOf_sub_count s.hdr.ref b.1 b.2.2 o1 o2 hr h12 h2n, ivOf_sub_base]
  constructor
  · rintro ⟨⟨k0, hk0, hx, hy⟩, hc, hs, hlo, hhi⟩
    rw [hx] at hlo hhi
    have := (hiff k0 hk0).1 ⟨hlo, hhi⟩
    refine ⟨k0 - o1, by omega, ?_, ?_⟩
    · rw [hx]; congr 3; omega
    · rw [hy]; congr 3; omega
  · rintro ⟨k, hk, hx, hy⟩
    have hkn : o1 + k < b.2.2 := by omega
    have := (hiff (o1 + k) hkn).2 ⟨by omega, by omega⟩
    refine ⟨⟨o1 + k, hkn, hx, hy⟩, ?_⟩
    rw [hx]
    exact ⟨hh.1, hh.2.1, this.1, this.2⟩

/-- …and a block that does not hit the interval aligns no base of it -/
theorem nohit_nobase (s : Sec) (hv : s.hdr.Valid) (hm : s.sumsMatch)
    (b : Nat × Nat × Nat) (hb : b ∈ localBlocks s.hdr.ref.start s.hdr.qry.start s.data)
    (iv : Interval) (hhit : (s.pairOf b).hit iv = false) (x y : Base) :
    AlignedBy s b x y → ¬ iv.hasBase x := by
  rintro ⟨k0, hk0, hx, hy⟩ ⟨hc, hs, hlo, hhi⟩
  have hbd := localBlocks_bounds s hm b hb
  have hr : b.1 + b.2.2 ≤ s.hdr.ref.size := Nat.le_trans hbd.2.1 hv.1.2.1
  rw [hx] at hc hs hlo hhi
  have hnh : ¬ (s.pairOf b).hit iv = true := by rw [hhit]; exact Bool.false_ne_true
  rw [hit_pairOf] at hnh
  have hno : ¬ ((s.hdr.ref.ivOf b.1 b.2.2).lo < iv.hi ∧ (s.hdr.ref.ivOf b.1 b.2.2).hi > iv.lo) :=
    fun h => hnh ⟨hc, hs, h.1, h.2⟩
  exact ivOf_no_overlap s.hdr.ref b.1 b.2.2 iv hr hno k0 hk0 ⟨hlo, hhi⟩

/-- a restricted block is a strand-directed sub-range `[o, o + n')` of its block: its `k`-th base
    pairing is the block's `(o + k)`-th -/
theorem restrict_sub (s : Sec) (hv : s.hdr.Valid) (hm : s.sumsMatch)
    (b : Nat × Nat × Nat) (hb : b ∈ localBlocks s.hdr.ref.start s.hdr.qry.start s.data)
    (iv : Interval) (hiv : iv.WF) (hhit : (s.pairOf b).hit iv = true) :
    ∃ o, o + (restrict iv (s.pairOf b)).ref.count ≤ b.2.2 ∧
      (restrict iv (s.pairOf b)).ref.count = (restrict iv (s.pairOf b)).qry.count ∧
      ∀ k, k < (restrict iv (s.pairOf b)).ref.count →
        (restrict iv (s.pairOf b)).ref.base k = ⟨s.hdr.ref.name, s.hdr.ref.strand, s.hdr.ref.fwd (b.1 + (o + k))⟩ ∧
        (restrict iv (s.pairOf b)).qry.base k = ⟨s.hdr.qry.name, s.hdr.qry.strand, s.hdr.qry.fwd (b.2.1 + (o + k))⟩ := by
  obtain ⟨o1, o2, h12, h2n, hr, hq, he, _⟩ := restrict_pairOf s hv hm b hb iv hiv hhit
  rw [he]
  simp only [ivOf_sub_count s.hdr.ref b.1 b.2.2 o1 o2 hr h12 h2n,
    ivOf_sub_count s.hdr.qry b.2.1 b.2.2 o1 o2 hq h12 h2n, ivOf_sub_base]
  exact ⟨o1, by omega, trivial, fun k _ => ⟨rfl, rfl⟩⟩

/-- the blocks of a file are the pairs of the local blocks of its sections -/
theorem mem_fileBlocks (ss : List Sec) (blk : Pair) :
    blk ∈ fileBlocks ss ↔
      ∃ s ∈ ss, ∃ b ∈ localBlocks s.hdr.ref.start s.hdr.qry.start s.data, blk = s.pairOf b := by
  unfold fileBlocks
  rw [List.mem_flatMap]
  constructor
  · rintro ⟨s, hs, hp⟩
    rw [blocks_eq_local, List.mem_map] at hp
    obtain ⟨b, hb, rfl⟩ := hp
    exact ⟨s, hs, b, hb, rfl⟩
  · rintro ⟨s, hs, b, hb, rfl⟩
    refine ⟨s, hs, ?_⟩
    rw [blocks_eq_local, List.mem_map]
    exact ⟨b, hb, rfl⟩

/-- the members of `hits` -/
theorem mem_hits (ss : List Sec) (iv : Interval) (p : Pair) :
    p ∈ hits ss iv ↔
      ∃ s ∈ ss, ∃ b ∈ localBlocks s.hdr.ref.start s.hdr.qry.start s.data,
        (s.pairOf b).hit iv = true ∧ p = restrict iv (s.pairOf b) := by
  unfold hits
  rw [List.mem_map]
  constructor
  · rintro ⟨blk, hblk, rfl⟩
    rw [List.mem_filter, mem_fileBlocks] at hblk
    obtain ⟨⟨s, hs, b, hb, rfl⟩, hh⟩ := hblk
    exact ⟨s, hs, b, hb, hh, rfl⟩
  · rintro ⟨s, hs, b, hb, hh, rfl⟩
    refine ⟨s.pairOf b, ?_, rfl⟩
    rw [List.mem_filter, mem_fileBlocks]
    exact ⟨⟨s, hs, b, hb, rfl⟩, hh⟩

/-- **The base-level characterisation** (C01 ∧ C02 ∧ C09 in one statement): the answer for `iv`
    contains the pairing `(x, y)` exactly when the file aligns `x` to `y` and `x` lies in `iv`. -/
theorem lift_char (ls : List Raw) (hv : ∀ r ∈ ls, r.Valid) (ss : List Sec) (hw : WFFile ls ss)
    (m : Machine) (hb : buildL ls = .ok m) (iv : Interval) (hiv : iv.WF) (x y : Base) :
    basePairs (liftL m iv) x y ↔ (Aligned ss x y ∧ iv.hasBase x) := by
  obtain ⟨_, _, _, hsec⟩ := C03_machine ls hv ss hw m hb
  have hperm := liftL_perm_hits ls hv ss hw m hb iv hiv
  unfold basePairs
  constructor
  · rintro ⟨p, hp, hk⟩
    rw [hperm.mem_iff, mem_hits] at hp
    obtain ⟨s, hs, b, hb', hh, rfl⟩ := hp
    have := (restrict_bases s (hsec s hs).1 (hsec s hs).2 b hb' iv hiv hh x y).2 hk
    exact ⟨⟨s, hs, b, hb', this.1⟩, this.2⟩
  · rintro ⟨⟨s, hs, b, hb', hal⟩, hbase⟩
    cases hh : (s.pairOf b).hit iv with
    | false => exact absurd hbase (nohit_nobase s (hsec s hs).1 (hsec s hs).2 b hb' iv hh x y hal)
    | true =>
      refine ⟨restrict iv (s.pairOf b), ?_, ?_⟩
      · rw [hperm.mem_iff, mem_hits]
        exact ⟨s, hs, b, hb', hh, rfl⟩
      · exact (restrict_bases s (hsec s hs).1 (hsec s hs).2 b hb' iv hiv hh x y).1 ⟨hal, hbase⟩

/-- 'no mapping' exactly when the specification's answer is empty -/
theorem lift_none_iff (ls : List Raw) (hv : ∀ r ∈ ls, r.Valid) (ss : List Sec) (hw : WFFile ls ss)
    (m : Machine) (hb : buildL ls = .ok m) (iv : Interval) (hiv : iv.WF) :
    m.liftover iv = .ok none ↔ hits ss iv = [] := by
  obtain ⟨sel, hp, _, hl⟩ := lift_refines ls hv ss hw m hb iv hiv
  rw [hl]
  unfold hits
  by_cases hs : sel = []
  · subst hs
    simp only [if_true, true_iff]
    rw [hp.symm.eq_nil]
    rfl
  · simp only [hs, if_false, Out.ok.injEq, reduceCtorEq, false_iff]
    intro hh
    rw [List.map_eq_nil_iff] at hh
    rw [hh] at hp
    exact hs hp.eq_nil

end CF
