/-
  Lemmas for C07 (sections part) / C06 (sections part): drains with any fuel.
-/
import CF.Lemmas.Sections
import CF.Model.Ops
namespace CF

def Out3.isItem : Out3 → Bool
  | .item _ => true
  | _ => false

theorem filter_isItem (p : Out3 → Bool) (hp : ∀ x, p x = x.isItem) (l : List Out3) :
    l.filter p = l.filter Out3.isItem := by
  have : p = Out3.isItem := funext hp
  rw [this]

theorem go_nil_between (b : Option (Hdr × List Rec)) (n : Nat) :
    SecIt.go b ⟨.between, n⟩ [] = (.done, ⟨.between, n + 1⟩, []) := by
  simp [SecIt.go]

/-- for every fuel: never more than `lines + 1` items -/
theorem drain_items_bound : ∀ (ls : List Raw) (it : SecIt) (fuel : Nat), it.st = .between →
    ((SecIt.drain fuel it ls).filter Out3.isItem).length ≤ ls.length + 1 := by
  intro ls
  induction hlen : ls.length using Nat.strongRecOn generalizing ls with
  | _ n ih =>
    intro it fuel hst
    cases fuel with
    | zero => simp [SecIt.drain]
    | succ f =>
      have hg := go_spec ls none it (by simp [Inv, hst])
      simp only [SecIt.drain, SecIt.next]
      generalize hres : SecIt.go none it ls = res at hg
      rcases res with ⟨o, it', ls'⟩
      cases o with
      | done => simp [Out3.isItem]
      | panic s => simp [Out3.isItem]
      | item x =>
        simp only at hg ⊢
        by_cases hnil : ls = []
        · subst hnil
          simp [SecIt.go, hst] at hres
        · have hlt := hg.2.2.2 (by simp) hnil
          have := ih ls'.length (by omega) ls' rfl it' f hg.2.1
          simp only [List.filter_cons, Out3.isItem, if_true, List.length_cons]
          omega

/-- no panic for every fuel -/
theorem drain_no_panic : ∀ (fuel : Nat) (ls : List Raw) (it : SecIt), it.st = .between →
    ∀ s, Out3.panic s ∉ SecIt.drain fuel it ls := by
  intro fuel
  induction fuel with
  | zero => intro ls it _ s; simp [SecIt.drain]
  | succ f ih =>
    intro ls it hst s
    have hg := go_spec ls none it (by simp [Inv, hst])
    simp only [SecIt.drain, SecIt.next]
    generalize hres : SecIt.go none it ls = res at hg
    rcases res with ⟨o, it', ls'⟩
    cases o with
    | done => simp
    | panic s' => exact absurd rfl (hg.1 s')
    | item x =>
      simp only at hg ⊢
      intro hmem
      simp at hmem
      exact ih ls' it' hg.2.1 s hmem

theorem linesNext_count : ∀ (k : Nat) (rs : List RawRes),
    (linesNext k rs).2.length + ((linesNext k rs).1.filter Option.isSome).length = rs.length := by
  intro k
  induction k with
  | zero => intro rs; simp [linesNext]
  | succ k ih =>
    intro rs
    cases rs with
    | nil =>
      have := ih []
      simp only [linesNext, readLine]
      simpa using this
    | cons r rest =>
      have := ih rest
      cases r with
      | io => simp only [linesNext, readLine]; simp; omega
      | utf8 => simp only [linesNext, readLine]; simp; omega
      | line a t =>
        simp only [linesNext, readLine]
        cases Line.parse t with
        | ok l => simp; omega
        | error e => simp; omega

end CF
