/-
  Lemmas about `Machine::liftover`: sort ▸ overlap ▸ strand ▸ restrict, never a panic.
-/
import CF.Spec.Align
import CF.Lemmas.Pair
import CF.Lemmas.Lapper
namespace CF
open Lap

theorem clampAll_spec (iv : Interval) (hiv : iv.WF) :
    ∀ (ps : List Pair), (∀ p ∈ ps, p.WF ∧ p.ref.contig = iv.contig ∧ p.ref.strand = iv.strand ∧
        max p.ref.lo iv.lo ≤ min p.ref.hi iv.hi) →
      clampAll iv ps = .ok (ps.map (restrict iv)) := by
  intro ps
  induction ps with
  | nil => intro _; rfl
  | cons p ps ih =>
    intro h
    have hp := h p (List.mem_cons_self ..)
    have := clamp_spec p iv hp.1 hiv hp.2.1 hp.2.2.1 hp.2.2.2
    simp only [clampAll, this, ih (fun q hq => h q (List.mem_cons_of_mem _ hq)), List.map_cons, restrict]

/-- the blocks the machine consults for a contig, in lapper order -/
def Machine.sorted (m : Machine) (c : List UInt8) : List Pair :=
  (((m.blocks.filter (fun p => decide (p.ref.contig = c))).map blockIv).mergeSort ivLe).map (·.val)

/-- what the machine selects for `iv`: sorted blocks of the contig ▸ overlapping ▸ on the strand -/
def Machine.sel (m : Machine) (iv : Interval) : List Pair :=
  ((m.sorted iv.contig).filter (·.overlaps iv)).filter (fun p => decide (p.ref.strand = iv.strand))

theorem mem_sort_blockIv {bs : List Pair} {i : Iv Pair}
    (h : i ∈ (bs.map blockIv).mergeSort ivLe) : i = blockIv i.val ∧ i.val ∈ bs := by
  have h' : i ∈ bs.map blockIv := ((List.mergeSort_perm (bs.map blockIv) ivLe).mem_iff (a := i)).mp h
  obtain ⟨b, hb, rfl⟩ := List.mem_map.mp h'
  exact ⟨rfl, hb⟩

theorem filter_overlap_map_val (iv : Interval) (l : List (Iv Pair))
    (h : ∀ i ∈ l, i = blockIv i.val) :
    (l.filter (·.overlap iv.lo iv.hi)).map (·.val) = (l.map (·.val)).filter (·.overlaps iv) := by
  rw [List.filter_map]
  congr 1
  apply List.filter_congr
  intro i hi
  have := h i hi
  rw [this]
  rfl

theorem mem_sorted {m : Machine} {c : List UInt8} {p : Pair} (h : p ∈ m.sorted c) :
    p ∈ m.blocks ∧ p.ref.contig = c := by
  simp only [Machine.sorted, List.mem_map] at h
  obtain ⟨i, hi, rfl⟩ := h
  have := (mem_sort_blockIv hi).2
  simpa [List.mem_filter] using this

/-- `Machine::liftover` = select, then restrict each selected block to the interval; `None` iff
    nothing is selected; never an error, never a panic — for every machine whose blocks are
    well-formed pairs, every interval (zero-length, past the contig end, unknown contig, …). -/
theorem liftover_spec (m : Machine) (iv : Interval) (hiv : iv.WF)
    (hwf : ∀ p ∈ m.blocks, p.WF) :
    m.liftover iv = .ok (if m.sel iv = [] then none else some ((m.sel iv).map (restrict iv))) := by
  have hsel : ∀ p ∈ m.sel iv, p.WF ∧ p.ref.contig = iv.contig ∧ p.ref.strand = iv.strand ∧
      max p.ref.lo iv.lo ≤ min p.ref.hi iv.hi := by
    intro p hp
    simp only [Machine.sel, List.mem_filter, decide_eq_true_eq, Pair.overlaps, Bool.and_eq_true] at hp
    obtain ⟨⟨hmem, hov⟩, hstr⟩ := hp
    obtain ⟨hb, hc⟩ := mem_sorted hmem
    have hw := hwf p hb
    refine ⟨hw, hc, hstr, ?_⟩
    have h1 := hw.1
    simp only [Interval.WF] at h1 hiv
    omega
  cases hbs : m.blocks.filter (fun p => decide (p.ref.contig = iv.contig)) with
  | nil =>
    have hs : m.sel iv = [] := by
      simp [Machine.sel, Machine.sorted, hbs]
    simp only [Machine.liftover, Machine.entry, hbs, hs, if_true]
  | cons b bs' =>
    have hfind : (m.sel iv) =
        ((((Lapper.new ((b :: bs').map blockIv)).ivs.filter (·.overlap iv.lo iv.hi)).map (·.val)).filter
          (fun p => decide (p.ref.strand = iv.strand))) := by
      simp only [Lapper.new]
      rw [filter_overlap_map_val iv _ (fun i hi => (mem_sort_blockIv hi).1)]
      simp only [Machine.sel, Machine.sorted, hbs]
    simp only [Machine.liftover, Machine.entry, hbs, find_eq_filter]
    rw [← hfind, clampAll_spec iv hiv _ hsel]
    cases hs : m.sel iv with
    | nil => simp
    | cons a as => simp

/-- the selection is, up to order, the blocks that hit the interval — each exactly once -/
theorem sel_perm (m : Machine) (iv : Interval) :
    (m.sel iv).Perm (m.blocks.filter (·.hit iv)) := by
  have hp : (m.sorted iv.contig).Perm (m.blocks.filter (fun p => decide (p.ref.contig = iv.contig))) := by
    have h1 := (List.mergeSort_perm ((m.blocks.filter (fun p => decide (p.ref.contig = iv.contig))).map blockIv) ivLe).map (·.val)
    have h2 : ((m.blocks.filter (fun p => decide (p.ref.contig = iv.contig))).map blockIv).map (·.val) =
        m.blocks.filter (fun p => decide (p.ref.contig = iv.contig)) := by
      rw [List.map_map]
      exact List.map_id'' (fun _ => rfl) _
    rw [h2] at h1
    exact h1
  have h3 := (hp.filter (·.overlaps iv)).filter (fun p => decide (p.ref.strand = iv.strand))
  refine h3.trans ?_
  rw [List.filter_filter, List.filter_filter]
  apply List.Perm.of_eq
  apply List.filter_congr
  intro p _
  simp only [Pair.hit]
  cases decide (p.ref.contig = iv.contig) <;> cases decide (p.ref.strand = iv.strand) <;>
    cases p.overlaps iv <;> rfl

/-- the selection is ordered by non-decreasing forward start (then stop) of the reference interval -/
theorem sel_sorted (m : Machine) (iv : Interval) :
    (m.sel iv).Pairwise (fun a b => a.ref.lo < b.ref.lo ∨ (a.ref.lo = b.ref.lo ∧ a.ref.hi ≤ b.ref.hi)) := by
  have h := List.pairwise_mergeSort (le := ivLe) ivLe_trans ivLe_total
    ((m.blocks.filter (fun p => decide (p.ref.contig = iv.contig))).map blockIv)
  have hs : (m.sorted iv.contig).Pairwise
      (fun a b => a.ref.lo < b.ref.lo ∨ (a.ref.lo = b.ref.lo ∧ a.ref.hi ≤ b.ref.hi)) := by
    simp only [Machine.sorted]
    rw [List.pairwise_map]
    refine List.Pairwise.imp_of_mem ?_ h
    intro a b ha hb hab
    have ea := (mem_sort_blockIv ha).1
    have eb := (mem_sort_blockIv hb).1
    have e1 : a.start = a.val.ref.lo := congrArg Iv.start ea
    have e2 : a.stop = a.val.ref.hi := congrArg Iv.stop ea
    have e3 : b.start = b.val.ref.lo := congrArg Iv.start eb
    have e4 : b.stop = b.val.ref.hi := congrArg Iv.stop eb
    simp only [ivLe, Bool.or_eq_true, Bool.and_eq_true, decide_eq_true_eq] at hab
    omega
  exact (hs.filter _).filter _

/-- the selection depends on a block list only through the blocks on the interval's contig, and is
    stable: blocks with equal `(lo, hi)` keep their file order -/
theorem sel_sublist_of_sorted (m : Machine) (iv : Interval) :
    (m.sel iv).Sublist (m.sorted iv.contig) := by
  exact (List.filter_sublist).trans (List.filter_sublist)

end CF
