/-
  Lemmas about the specification-level parser (`specSecs`, `specBody`, `Parses`): unfolding,
  independence of the starting line number, blank padding.
-/
import CF.Spec.Grammar
namespace CF

theorem specSecs_nil (n : Nat) : specSecs n [] = [] := by rw [specSecs]

theorem specSecs_io (n : Nat) (ls : List Raw) : specSecs n (.io :: ls) = [.err .io] := by rw [specSecs]

theorem specSecs_unparsable (n : Nat) (t : List UInt8) (ls : List Raw) :
    specSecs n (.unparsable t :: ls) = [.err (.unparsable t)] := by rw [specSecs]

theorem specSecs_empty (n : Nat) (ls : List Raw) :
    specSecs n (Raw.line .empty :: ls) = specSecs (n + 1) ls := by rw [specSecs]

theorem specSecs_data (n : Nat) (r : Rec) (ls : List Raw) :
    specSecs n (.line (.data r) :: ls) = [.err (.dataBetween r)] := by rw [specSecs]

theorem specSecs_header_err (n : Nat) (h : Hdr) (ls : List Raw) (e : SecErr) (rest : List Raw)
    (hb : specBody (n + 1) ls [] = .error (e, rest)) :
    specSecs n (.line (.header h) :: ls) = [.err e] := by
  rw [specSecs]
  split
  · rename_i e' r' hb'; rw [hb] at hb'; cases hb'; rfl
  · rename_i ds r' hb'; rw [hb] at hb'; cases hb'

theorem specSecs_header_ok (n : Nat) (h : Hdr) (ls : List Raw) (ds : List Rec) (rest : List Raw)
    (hb : specBody (n + 1) ls [] = .ok (ds, rest)) :
    specSecs n (.line (.header h) :: ls) = .sec ⟨h, ds⟩ :: specSecs (n + 1 + ds.length) rest := by
  rw [specSecs]
  split
  · rename_i e' r' hb'; rw [hb] at hb'; cases hb'
  · rename_i ds' r' hb'; rw [hb] at hb'; cases hb'; rfl

/-- erase the line number quoted in a `blank` error -/
def eraseErrNo : SecErr → SecErr
  | .blank _ => .blank 0
  | e => e

theorem specBody_lineNo (n n' : Nat) : ∀ (ls : List Raw) (acc : List Rec),
    (∀ ds rest, specBody n ls acc = .ok (ds, rest) → specBody n' ls acc = .ok (ds, rest)) ∧
    (∀ e rest, specBody n ls acc = .error (e, rest) →
      ∃ e', specBody n' ls acc = .error (e', rest) ∧ eraseErrNo e = eraseErrNo e') := by
  intro ls
  induction ls generalizing n n' with
  | nil => intro acc; simp [specBody]
  | cons x xs ih =>
    intro acc
    cases x with
    | io => simp [specBody]
    | unparsable t => simp [specBody]
    | line l =>
      cases l with
      | empty => simp [specBody, eraseErrNo]
      | header h => simp [specBody]
      | data r =>
        simp only [specBody]
        cases r.kind with
        | term => simp
        | nonterm => exact ih (n + 1) (n' + 1) (acc ++ [r])

/-- the parse does not depend on the starting line number except inside `blank n` errors -/
def eraseItemNo : SpecItem → SpecItem
  | .err e => .err (eraseErrNo e)
  | x => x

theorem specSecs_lineNo : ∀ (m : Nat) (ls : List Raw) (n n' : Nat), ls.length ≤ m →
    (specSecs n ls).map eraseItemNo = (specSecs n' ls).map eraseItemNo := by
  intro m
  induction m with
  | zero =>
    intro ls n n' h
    cases ls with
    | nil => simp [specSecs_nil]
    | cons x xs => simp at h
  | succ m ih =>
    intro ls n n' hlen
    cases ls with
    | nil => simp [specSecs_nil]
    | cons x rest =>
      simp only [List.length_cons] at hlen
      cases x with
      | io => simp [specSecs_io]
      | unparsable t => simp [specSecs_unparsable]
      | line l =>
        cases l with
        | empty => rw [specSecs_empty, specSecs_empty]; exact ih rest _ _ (by omega)
        | data r => simp [specSecs_data]
        | header h =>
          cases hb : specBody (n + 1) rest [] with
          | error p =>
            obtain ⟨e, r⟩ := p
            obtain ⟨e', hb', he⟩ := (specBody_lineNo (n + 1) (n' + 1) rest []).2 e r hb
            rw [specSecs_header_err _ _ _ _ _ hb, specSecs_header_err _ _ _ _ _ hb']
            simp [eraseItemNo, he]
          | ok p =>
            obtain ⟨ds, r⟩ := p
            have hb' := (specBody_lineNo (n + 1) (n' + 1) rest []).1 ds r hb
            have hl := (specBody_length (n + 1) rest []).2 ds r hb
            rw [specSecs_header_ok _ _ _ _ _ hb, specSecs_header_ok _ _ _ _ _ hb']
            simp only [List.map_cons]
            congr 1
            exact ih r _ _ (by omega)

theorem parses_blanks (k : Nat) (b : List Line) (ss : List Sec) (h : Parses b ss) :
    Parses (List.replicate k Line.empty ++ b) ss := by
  induction k with
  | zero => simpa using h
  | succ k ih => rw [List.replicate_succ, List.cons_append]; exact Parses.blank ih

end CF
