/-
  The builder is the fold `buildSpec` over the specification-level parse of the stream.
-/
import CF.Lemmas.Build
import CF.Lemmas.SectionsSpec
namespace CF

/-- the builder's loop from a `between` state at line `n`, with enough fuel, is the fold over the
    specification-level parse of the remaining stream -/
theorem buildLoop_eq_buildSpec : ∀ (ls : List Raw) (n fuel : Nat) (m : Machine), ls.length + 2 ≤ fuel →
    buildLoop fuel ⟨.between, n⟩ ls m = buildSpec (specSecs (n + 1) ls) m := by
  intro ls
  induction hlen : ls.length using Nat.strongRecOn generalizing ls with
  | _ k ih =>
    intro n fuel m hf
    cases fuel with
    | zero => omega
    | succ f =>
      cases ls with
      | nil => simp [buildLoop, SecIt.next, SecIt.go, specSecs_nil, buildSpec]
      | cons x rest =>
        simp only [List.length_cons] at hlen hf
        cases x with
        | io => simp [buildLoop, SecIt.next, SecIt.go, specSecs_io, buildSpec]
        | unparsable t => simp [buildLoop, SecIt.next, SecIt.go, specSecs_unparsable, buildSpec]
        | line l =>
          cases l with
          | empty =>
            have := ih rest.length (by omega) rest rfl (n + 1) (f + 1) m (by omega)
            rw [specSecs_empty]
            simp only [buildLoop, SecIt.next, SecIt.go, getState] at this ⊢
            exact this
          | data r => simp [buildLoop, SecIt.next, SecIt.go, getState, specSecs_data, buildSpec]
          | header h =>
            have hgo : SecIt.go none ⟨.between, n⟩ (Raw.line (.header h) :: rest) =
                SecIt.go (some (h, [])) ⟨.reading, n + 1⟩ rest := by
              simp only [SecIt.go, getState]
            simp only [buildLoop, SecIt.next, hgo]
            cases hb : specBody (n + 1 + 1) rest [] with
            | error er =>
              rcases er with ⟨e, r'⟩
              obtain ⟨k', hk'⟩ := go_reading_err h rest [] (n + 1) e r' hb
              rw [hk', specSecs_header_err (n + 1) h rest e r' hb]
              simp [buildSpec]
            | ok okv =>
              rcases okv with ⟨ds, rest'⟩
              have hlt := (specBody_length (n + 1 + 1) rest []).2 ds rest' hb
              rw [go_reading_ok h rest (n + 1) ds rest' hb, specSecs_header_ok (n + 1) h rest ds rest' hb]
              simp only [buildSpec]
              cases hadd : m.addSection ⟨h, ds⟩ with
              | error e => rfl
              | ok m' =>
                simp only
                have := ih rest'.length (by omega) rest' rfl (n + 1 + ds.length) f m' (by omega)
                have hn : n + 1 + 1 + ds.length = n + 1 + ds.length + 1 := by omega
                rw [hn, this]

/-- **Refinement of the builder.** For every stream of read results, `try_build_from` (the loop over
    `sections()`, with its `?` exits) computes exactly the fold of `addSection` over the
    specification-level parse, stopping at the first error item. No validity assumption. -/
theorem buildL_eq_buildSpec (ls : List Raw) : buildL ls = buildSpec (specSecs 1 ls) Machine.empty := by
  exact buildLoop_eq_buildSpec ls 0 (ls.length + 2) Machine.empty (Nat.le_refl _)

/-- the header of every section of a conforming stream is one of its header lines, and its records
    are among its data lines -/
theorem parses_mem {lines : List Line} {ss : List Sec} (hp : Parses lines ss) :
    ∀ s ∈ ss, Line.header s.hdr ∈ lines ∧ ∀ r ∈ s.data, Line.data r ∈ lines := by
  induction hp with
  | nil => intro s hs; cases hs
  | blank _ ih =>
    intro s hs
    obtain ⟨h1, h2⟩ := ih s hs
    exact ⟨List.mem_cons_of_mem _ h1, fun r hr => List.mem_cons_of_mem _ (h2 r hr)⟩
  | @sec ls ss h mid last hm hl _ ih =>
    intro s hs
    rcases List.mem_cons.1 hs with rfl | hs
    · refine ⟨List.mem_cons_self .., ?_⟩
      intro r hr
      apply List.mem_cons_of_mem
      simp only [List.mem_append, List.mem_singleton] at hr
      rcases hr with hr | rfl
      · simp only [List.mem_append, List.mem_map]
        exact Or.inl (Or.inl ⟨r, hr, rfl⟩)
      · simp
    · obtain ⟨h1, h2⟩ := ih s hs
      refine ⟨List.mem_cons_of_mem _ (List.mem_append_right _ h1), fun r hr => ?_⟩
      exact List.mem_cons_of_mem _ (List.mem_append_right _ (h2 r hr))

/-- a parse without error items is a list of sections -/
theorem items_no_err : ∀ (items : List SpecItem), (¬ ∃ e, SpecItem.err e ∈ items) →
    ∃ ss : List Sec, items = ss.map SpecItem.sec := by
  intro items
  induction items with
  | nil => intro _; exact ⟨[], rfl⟩
  | cons x xs ih =>
    intro h
    cases x with
    | err e => exact absurd ⟨e, List.mem_cons_self ..⟩ h
    | sec s =>
      obtain ⟨ss, hss⟩ := ih (fun ⟨e, he⟩ => h ⟨e, List.mem_cons_of_mem _ he⟩)
      exact ⟨s :: ss, by rw [hss]; rfl⟩

theorem map_sec_inj : ∀ (ss ss' : List Sec), ss.map SpecItem.sec = ss'.map SpecItem.sec → ss = ss' := by
  intro ss
  induction ss with
  | nil => intro ss' h; cases ss' with
    | nil => rfl
    | cons _ _ => simp at h
  | cons s ss ih =>
    intro ss' h
    cases ss' with
    | nil => simp at h
    | cons s' ss' =>
      simp only [List.map_cons, List.cons.injEq, SpecItem.sec.injEq] at h
      rw [h.1, ih ss' h.2]

/-- a prefix of a successful fold succeeds -/
theorem buildSpec_prefix_ok : ∀ (a b : List Sec) (m m' : Machine),
    buildSpec ((a ++ b).map SpecItem.sec) m = .ok m' → ∃ m'', buildSpec (a.map SpecItem.sec) m = .ok m'' := by
  intro a
  induction a with
  | nil => intro b m m' _; exact ⟨m, rfl⟩
  | cons s a ih =>
    intro b m m' h
    simp only [List.cons_append, List.map_cons, buildSpec] at h ⊢
    cases hadd : m.addSection s with
    | error e => rw [hadd] at h; cases h
    | ok m1 =>
      rw [hadd] at h
      exact ih b m1 m' h

/-- a failed read anywhere in the stream shows up as an error item of the parse -/
theorem specSecs_io_err : ∀ (ls : List Raw) (n : Nat), Raw.io ∈ ls → ∃ e, SpecItem.err e ∈ specSecs n ls := by
  intro ls
  induction hlen : ls.length using Nat.strongRecOn generalizing ls with
  | _ k ih =>
    intro n hio
    cases ls with
    | nil => cases hio
    | cons x rest =>
      simp only [List.length_cons] at hlen
      cases x with
      | io => exact ⟨.io, by rw [specSecs_io]; exact List.mem_cons_self ..⟩
      | unparsable t => exact ⟨.unparsable t, by rw [specSecs_unparsable]; exact List.mem_cons_self ..⟩
      | line l =>
        have hio' : Raw.io ∈ rest := by
          rcases List.mem_cons.1 hio with h | h
          · cases h
          · exact h
        cases l with
        | empty =>
          rw [specSecs_empty]
          exact ih rest.length (by omega) rest rfl (n + 1) hio'
        | data r => exact ⟨.dataBetween r, by rw [specSecs_data]; exact List.mem_cons_self ..⟩
        | header h =>
          cases hb : specBody (n + 1) rest [] with
          | error er =>
            rcases er with ⟨e, r'⟩
            exact ⟨e, by rw [specSecs_header_err n h rest e r' hb]; exact List.mem_cons_self ..⟩
          | ok okv =>
            rcases okv with ⟨ds, rest'⟩
            have hlt := (specBody_length (n + 1) rest []).2 ds rest' hb
            obtain ⟨mid, last, _, _, _, e4⟩ := specBody_ok_shape rest _ _ _ _ hb
            have hio'' : Raw.io ∈ rest' := by
              rw [e4] at hio'
              simp only [List.mem_append, List.mem_map, List.mem_cons] at hio'
              rcases hio' with ⟨r, _, hr⟩ | hr | hr
              · cases hr
              · cases hr
              · exact hr
            obtain ⟨e, he⟩ := ih rest'.length (by omega) rest' rfl (n + 1 + ds.length) hio''
            exact ⟨e, by rw [specSecs_header_ok n h rest ds rest' hb]; exact List.mem_cons_of_mem _ he⟩

/-- cutting a conforming stream after `k` lines: the parse is a whole-section prefix, or it contains
    an error item (the end of input inside a section) -/
theorem specSecs_take {lines : List Line} {ss : List Sec} (hp : Parses lines ss) :
    ∀ (k n : Nat), (∃ j, specSecs n ((lines.take k).map Raw.line) = (ss.take j).map SpecItem.sec) ∨
      (∃ e, SpecItem.err e ∈ specSecs n ((lines.take k).map Raw.line)) := by
  induction hp with
  | nil => intro k n; exact Or.inl ⟨0, by simp [specSecs_nil]⟩
  | blank _ ih =>
    intro k n
    cases k with
    | zero => exact Or.inl ⟨0, by simp [specSecs_nil]⟩
    | succ k =>
      simp only [List.take_succ_cons, List.map_cons, specSecs_empty]
      exact ih k (n + 1)
  | @sec ls ss h mid last hm hl _ ih =>
    intro k n
    cases k with
    | zero => exact Or.inl ⟨0, by simp [specSecs_nil]⟩
    | succ k =>
      simp only [List.take_succ_cons, List.map_cons]
      by_cases hk : mid.length + 1 ≤ k
      · have hshape : List.map Raw.line (List.take k (mid.map Line.data ++ [Line.data last] ++ ls)) =
            mid.map (fun r => Raw.line (.data r)) ++
              Raw.line (.data last) :: (List.take (k - (mid.length + 1)) ls).map Raw.line := by
          rw [List.take_append]
          rw [List.take_of_length_le (by simp; omega)]
          simp [Function.comp_def]
        rw [hshape, specSecs_header_ok n h _ _ _ (specBody_section mid hm last hl _ (n + 1) [])]
        rcases ih (k - (mid.length + 1)) (n + 1 + ([] ++ mid ++ [last]).length) with ⟨j, hj⟩ | ⟨e, he⟩
        · exact Or.inl ⟨j + 1, by rw [hj]; simp⟩
        · exact Or.inr ⟨e, List.mem_cons_of_mem _ he⟩
      · have hshape : List.map Raw.line (List.take k (mid.map Line.data ++ [Line.data last] ++ ls)) =
            (mid.take k).map (fun r => Raw.line (.data r)) ++ [] := by
          rw [List.append_assoc, List.take_append]
          have : k - (mid.map Line.data).length = 0 := by simp; omega
          rw [this]
          simp [Function.comp_def, List.map_take]
        rw [hshape, specSecs_partial n h (mid.take k) (fun r hr => hm r (List.mem_of_mem_take hr)) []
          .abruptEnd [] (by intro acc; simp [specBody])]
        exact Or.inr ⟨.abruptEnd, List.mem_cons_self ..⟩

end CF
