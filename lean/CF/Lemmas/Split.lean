/-
  Lemmas about `splitOn` / `joinWith`, digits of printed numerals, and `parseU64`.
-/
import CF.Lemmas.Text
namespace CF

theorem splitOn_ne_nil (sep : UInt8) (t : List UInt8) : splitOn sep t ≠ [] := by
  induction t with
  | nil => simp [splitOn]
  | cons b bs ih =>
    simp only [splitOn]
    split
    · simp
    · split <;> simp

theorem splitOn_cons_sep (sep : UInt8) (bs : List UInt8) :
    splitOn sep (sep :: bs) = [] :: splitOn sep bs := by
  simp [splitOn]

theorem splitOn_cons_of_ne {sep b : UInt8} {bs f : List UInt8} {fs : List (List UInt8)}
    (hb : b ≠ sep) (h : splitOn sep bs = f :: fs) : splitOn sep (b :: bs) = (b :: f) :: fs := by
  simp [splitOn, hb, h]

theorem splitOn_no_sep (sep : UInt8) (t : List UInt8) :
    ∀ f ∈ splitOn sep t, sep ∉ f := by
  induction t with
  | nil => intro f hf; simp [splitOn] at hf; subst hf; simp
  | cons b bs ih =>
    intro f hf
    by_cases hb : b = sep
    · subst hb
      rw [splitOn_cons_sep] at hf
      rcases List.mem_cons.1 hf with h | h
      · subst h; simp
      · exact ih f h
    · cases hs : splitOn sep bs with
      | nil => exact absurd hs (splitOn_ne_nil _ _)
      | cons g gs =>
        rw [splitOn_cons_of_ne hb hs] at hf
        rw [hs] at ih
        rcases List.mem_cons.1 hf with h | h
        · subst h
          intro hm
          rcases List.mem_cons.1 hm with h' | h'
          · exact hb h'.symm
          · exact ih g (by simp) h'
        · exact ih f (List.mem_cons_of_mem _ h)

theorem splitOn_of_not_mem (sep : UInt8) (f : List UInt8) (h : sep ∉ f) : splitOn sep f = [f] := by
  induction f with
  | nil => simp [splitOn]
  | cons x xs ih =>
    have hx : x ≠ sep := fun e => h (by simp [e])
    have hxs : sep ∉ xs := fun e => h (List.mem_cons_of_mem _ e)
    exact splitOn_cons_of_ne hx (ih hxs)

theorem splitOn_append_sep (sep : UInt8) (f rest : List UInt8) (h : sep ∉ f) :
    splitOn sep (f ++ sep :: rest) = f :: splitOn sep rest := by
  induction f with
  | nil => simp [splitOn]
  | cons x xs ih =>
    have hx : x ≠ sep := fun e => h (by simp [e])
    have hxs : sep ∉ xs := fun e => h (List.mem_cons_of_mem _ e)
    rw [List.cons_append]
    exact splitOn_cons_of_ne hx (ih hxs)

theorem joinWith_cons_cons (sep : UInt8) (f g : List UInt8) (gs : List (List UInt8)) :
    joinWith sep (f :: g :: gs) = f ++ sep :: joinWith sep (g :: gs) := rfl

theorem joinWith_singleton (sep : UInt8) (f : List UInt8) : joinWith sep [f] = f := rfl

theorem splitOn_joinWith (sep : UInt8) (fs : List (List UInt8)) (hfs : fs ≠ [])
    (h : ∀ f ∈ fs, sep ∉ f) : splitOn sep (joinWith sep fs) = fs := by
  induction fs with
  | nil => exact absurd rfl hfs
  | cons f gs ih =>
    cases gs with
    | nil => rw [joinWith_singleton]; exact splitOn_of_not_mem _ _ (h f (by simp))
    | cons g gs =>
      rw [joinWith_cons_cons, splitOn_append_sep _ _ _ (h f (by simp)),
        ih (by simp) (fun x hx => h x (List.mem_cons_of_mem _ hx))]

theorem joinWith_splitOn (sep : UInt8) (t : List UInt8) : joinWith sep (splitOn sep t) = t := by
  induction t with
  | nil => simp [splitOn, joinWith]
  | cons b bs ih =>
    cases hs : splitOn sep bs with
    | nil => exact absurd hs (splitOn_ne_nil _ _)
    | cons g gs =>
      rw [hs] at ih
      by_cases hb : b = sep
      · subst hb
        rw [splitOn_cons_sep, hs, joinWith_cons_cons, ih]; rfl
      · rw [splitOn_cons_of_ne hb hs]
        cases gs with
        | nil => rw [joinWith_singleton] at ih ⊢; rw [ih]
        | cons g' gs' =>
          rw [joinWith_cons_cons] at ih ⊢
          rw [List.cons_append, ih]

/-! ### digits -/

theorem printNat_digits (n : Nat) : ∀ b ∈ printNat n, isDigit b = true := by
  induction n using Nat.strongRecOn with
  | _ n ih =>
    intro b hb
    unfold printNat at hb
    split at hb
    · rename_i h
      simp at hb; subst hb; exact isDigit_digitChar n h
    · rename_i h
      rcases List.mem_append.1 hb with h' | h'
      · exact ih (n / 10) (by omega) b h'
      · simp at h'; subst h'; exact isDigit_digitChar _ (Nat.mod_lt _ (by omega))

theorem SP_not_mem_printNat (n : Nat) : SP ∉ printNat n := by
  intro h
  have := printNat_digits n SP h
  exact absurd this (by decide)

theorem TAB_not_mem_printNat (n : Nat) : TAB ∉ printNat n := by
  intro h
  have := printNat_digits n TAB h
  exact absurd this (by decide)

theorem SP_not_mem_CHAIN : SP ∉ CHAIN := by decide

/-- a printed numeral starts with a digit -/
theorem printNat_head (n : Nat) : ∃ d r, printNat n = d :: r ∧ isDigit d = true := by
  cases hp : printNat n with
  | nil => exact absurd hp (printNat_ne_nil n)
  | cons d r =>
    refine ⟨d, r, rfl, ?_⟩
    exact printNat_digits n d (by rw [hp]; simp)

/-! ### parseU64 -/

theorem parseU64_le {f : List UInt8} {v : Nat} (h : parseU64 f = some v) : v ≤ U64_MAX := by
  unfold parseU64 at h
  split at h
  · split at h
    · simp at h; subst h; assumption
    · simp at h
  · simp at h

theorem parseU64_printNat (n : Nat) (h : n ≤ U64_MAX) : parseU64 (printNat n) = some n := by
  unfold parseU64
  rw [parse_print]
  simp [h]

end CF
