/-
  Converse direction of the step-through lemmas: what the drain looks like when the records do
  not add up (a prefix of the expected tiling followed by exactly one error), plus the structural
  facts about `StepIt.next` / `StepIt.drain` used for the C07 properties.
-/
import CF.Lemmas.Step
import CF.Spec.WF
namespace CF

/-! ### checked moves on `coordOf` -/

theorem moveForward_none (c : Coord) (k : Nat) (hk : k ≠ 0)
    (h : match c.strand with | .pos => ¬ c.pos + k ≤ U64_MAX | .neg => ¬ k ≤ c.pos) :
    c.moveForward k = none := by
  rcases c with ⟨cn, st, p⟩
  cases st <;> simp only [Coord.moveForward] at * <;> simp_all

/-- a checked move from local `x` succeeds exactly when `x + n` stays within the local bound -/
theorem coordOf_move_iff (s : Seq) (x n : Nat) (hx : x ≤ s.bound) (hs : s.size ≤ U64_MAX) :
    (s.coordOf x).moveForward n = if x + n ≤ s.bound then some (s.coordOf (x + n)) else none := by
  by_cases h : x + n ≤ s.bound
  · rw [if_pos h]; exact coordOf_move s x n h hs
  · rw [if_neg h]
    rcases s with ⟨nm, sz, st, a, b⟩
    cases st <;> simp only [Seq.bound, Seq.coordOf] at * <;> apply moveForward_none <;> simp <;> omega

theorem optMove_coordOf (s : Seq) (x : Nat) (d : Option Nat) (hx : x ≤ s.bound) (hs : s.size ≤ U64_MAX) :
    optMove (s.coordOf x) d
      = if x + d.getD 0 ≤ s.bound then some (s.coordOf (x + d.getD 0)) else none := by
  cases d with
  | none => simp [optMove, hx]
  | some k => simp only [optMove, Option.getD]; exact coordOf_move_iff s x k hx hs

/-- below the bound, `coordOf` is injective -/
theorem coordOf_inj (s : Seq) (x y : Nat) (hx : x ≤ s.bound) (hy : y ≤ s.bound)
    (hs : s.size ≤ U64_MAX) : s.coordOf x = s.coordOf y ↔ x = y := by
  constructor
  · intro h
    rcases s with ⟨nm, sz, st, a, b⟩
    cases st <;> simp only [Seq.bound, Seq.coordOf, Coord.mk.injEq, true_and] at * <;> omega
  · intro h; rw [h]

theorem Seq.Valid.stop_le_bound {s : Seq} (hv : s.Valid) : s.stop ≤ s.bound := by
  rcases s with ⟨nm, sz, st, a, b⟩
  rcases hv with ⟨h1, h2, h3⟩
  cases st <;> simp only [Seq.bound] at * <;> omega

theorem Seq.Valid.start_le_bound {s : Seq} (hv : s.Valid) : s.start ≤ s.bound := by
  have := hv.stop_le_bound
  have := hv.1
  omega

/-- `Sequence::interval()` of a valid header side -/
theorem Seq.interval_valid (s : Seq) (hv : s.Valid) :
    ∃ iv, s.interval = .ok iv ∧ iv.start = s.coordOf s.start ∧ iv.stop = s.coordOf s.stop := by
  rcases s with ⟨nm, sz, st, a, b⟩
  rcases hv with ⟨h1, h2, h3⟩
  cases st
  · simp only [Seq.interval] at *
    rw [Interval.tryNew_ok _ _ _ _ (by simp only; omega)]
    refine ⟨_, rfl, ?_, ?_⟩ <;> simp [Interval.start, Interval.stop, Seq.coordOf] <;> omega
  · simp only [Seq.interval] at *
    rw [if_pos (by omega), Interval.tryNew_ok _ _ _ _ (by simp only; omega)]
    refine ⟨_, rfl, ?_, ?_⟩ <;> simp [Interval.start, Interval.stop, Seq.coordOf] <;> omega

theorem StepIt.new_valid (s : Sec) (hv : s.hdr.Valid) :
    StepIt.new s = .ok ⟨s.hdr.ref.coordOf s.hdr.ref.start, s.hdr.ref.coordOf s.hdr.ref.stop,
                        s.hdr.qry.coordOf s.hdr.qry.start, s.hdr.qry.coordOf s.hdr.qry.stop,
                        s.data, false, false⟩ := by
  obtain ⟨r, hr, hr1, hr2⟩ := Seq.interval_valid _ hv.1
  obtain ⟨q, hq, hq1, hq2⟩ := Seq.interval_valid _ hv.2.1
  simp only [StepIt.new, hr, hq, hr1, hr2, hq1, hq2]

/-! ### structure of `next` and `drain` -/

theorem StepIt.next_errored (it : StepIt) (h : it.errored = true) : it.next = (none, it) := by
  simp [StepIt.next, h]

theorem StepIt.drain_errored (it : StepIt) (h : it.errored = true) (fuel : Nat) :
    it.drain fuel = [] := by
  cases fuel with
  | zero => rfl
  | succ f => simp [StepIt.drain, StepIt.next_errored it h]

/-- the three possible outcomes of one `step()` -/
theorem StepIt.step_cases (it : StepIt) :
    (∃ it', it.step = (none, it')) ∨
    (∃ e it', it.step = (some (.error e), it') ∧ it'.data.length ≤ it.data.length ∧
        (it.data ≠ [] → it'.data.length + 1 = it.data.length)) ∨
    (∃ x it', it.step = (some (.ok x), it') ∧ it'.data.length + 1 = it.data.length ∧
        it'.errored = it.errored) := by
  rcases it with ⟨rp, re, qp, qe, data, fin, err⟩
  cases data with
  | nil =>
    simp only [StepIt.step]
    split
    · right; left; exact ⟨_, _, rfl, by simp, by simp⟩
    · split
      · right; left; exact ⟨_, _, rfl, by simp, by simp⟩
      · left; exact ⟨_, rfl⟩
  | cons c rest =>
    simp only [StepIt.step]
    repeat' split
    all_goals first
      | (right; left; exact ⟨_, _, rfl, by simp, by simp⟩)
      | (right; right; exact ⟨_, _, rfl, by simp, by simp⟩)

/-- the three possible outcomes of one `next()` -/
theorem StepIt.next_cases (it : StepIt) :
    (∃ it', it.next = (none, it')) ∨
    (∃ e it', it.next = (some (.error e), it') ∧ it'.errored = true ∧
        it'.data.length ≤ it.data.length) ∨
    (∃ x it', it.next = (some (.ok x), it') ∧ it'.data.length + 1 = it.data.length ∧
        it'.errored = false) := by
  by_cases he : it.errored = true
  · left; exact ⟨it, StepIt.next_errored it he⟩
  · have he' : it.errored = false := by simpa using he
    rcases StepIt.step_cases it with ⟨it', h⟩ | ⟨e, it', h, h1, _⟩ | ⟨x, it', h, h1, h2⟩
    · left; exact ⟨it', by simp [StepIt.next, he', h]⟩
    · right; left; exact ⟨e, { it' with errored := true }, by simp [StepIt.next, he', h], rfl, h1⟩
    · right; right; exact ⟨x, it', by simp [StepIt.next, he', h], h1, by rw [h2, he']⟩

theorem StepIt.drain_length_le (fuel : Nat) : ∀ it : StepIt, (it.drain fuel).length ≤ it.data.length + 1 := by
  induction fuel with
  | zero => intro it; simp [StepIt.drain]
  | succ f ih =>
    intro it
    rcases StepIt.next_cases it with ⟨it', h⟩ | ⟨e, it', h, h1, h2⟩ | ⟨x, it', h, h1, h2⟩
    · simp [StepIt.drain, h]
    · simp [StepIt.drain, h, StepIt.drain_errored it' h1]
    · have := ih it'
      simp only [StepIt.drain, h, List.length_cons]
      omega

theorem StepIt.drain_error_last (fuel : Nat) : ∀ (it : StepIt) (pre post : List Item) (e : StErr),
    it.drain fuel = pre ++ .error e :: post → post = [] := by
  induction fuel with
  | zero => intro it pre post e h; simp [StepIt.drain] at h
  | succ f ih =>
    intro it pre post e h
    rcases StepIt.next_cases it with ⟨it', hn⟩ | ⟨e', it', hn, h1, h2⟩ | ⟨x, it', hn, h1, h2⟩
    · simp [StepIt.drain, hn] at h
    · simp only [StepIt.drain, hn, StepIt.drain_errored it' h1] at h
      cases pre with
      | nil => simp at h; exact h.2
      | cons p ps => simp at h
    · simp only [StepIt.drain, hn] at h
      cases pre with
      | nil => simp at h
      | cons p ps =>
        simp only [List.cons_append, List.cons.injEq] at h
        exact ih it' ps post e h.2

theorem StepIt.drain_stable (f1 : Nat) : ∀ (it : StepIt) (f2 : Nat),
    it.data.length + 2 ≤ f1 → it.data.length + 2 ≤ f2 → it.drain f1 = it.drain f2 := by
  induction f1 with
  | zero => intro it f2 h; omega
  | succ f ih =>
    intro it f2 h1 h2
    cases f2 with
    | zero => omega
    | succ g =>
      rcases StepIt.next_cases it with ⟨it', hn⟩ | ⟨e', it', hn, he, hl⟩ | ⟨x, it', hn, hl, he⟩
      · simp [StepIt.drain, hn]
      · simp [StepIt.drain, hn, StepIt.drain_errored it' he]
      · simp only [StepIt.drain, hn]
        rw [ih it' g (by omega) (by omega)]

/-! ### the tiling lemma -/

/-- From local positions `(t, q)` below the bounds, aiming at `(te, qe)` below the bounds: the drain
    is a prefix of the expected tiling followed by nothing (all records used, and they add up) or
    by exactly one error (and they do not add up). -/
theorem drain_tiling (h : Hdr) (hrs : h.ref.size ≤ U64_MAX) (hqs : h.qry.size ≤ U64_MAX)
    (te qe : Nat) (hte : te ≤ h.ref.bound) (hqe : qe ≤ h.qry.bound) :
    ∀ (recs : List Rec) (t q : Nat) (fuel : Nat),
      t ≤ h.ref.bound → q ≤ h.qry.bound → recs.length + 1 ≤ fuel →
      ∃ k, k ≤ recs.length ∧
        ((StepIt.drain fuel ⟨h.ref.coordOf t, h.ref.coordOf te, h.qry.coordOf q, h.qry.coordOf qe, recs, false, false⟩
            = ((expected h t q recs).take k).map .ok
          ∧ k = recs.length ∧ (t + sumT recs = te ∧ q + sumQ recs = qe)) ∨
         (∃ e, StepIt.drain fuel ⟨h.ref.coordOf t, h.ref.coordOf te, h.qry.coordOf q, h.qry.coordOf qe, recs, false, false⟩
            = ((expected h t q recs).take k).map .ok ++ [.error e]
          ∧ ¬ (t + sumT recs = te ∧ q + sumQ recs = qe))) := by
  intro recs
  induction recs with
  | nil =>
    intro t q fuel ht hq hf
    refine ⟨0, Nat.le_refl _, ?_⟩
    cases fuel with
    | zero => simp at hf
    | succ f =>
      have i1 := coordOf_inj h.ref t te ht hte hrs
      have i2 := coordOf_inj h.qry q qe hq hqe hqs
      simp only [sumT, sumQ, Nat.add_zero]
      by_cases h1 : t = te
      · by_cases h2 : q = qe
        · left
          subst h1 h2
          simp [StepIt.drain, StepIt.next, StepIt.step, expected]
        · right
          have h2' : ¬ h.qry.coordOf q = h.qry.coordOf qe := fun hh => h2 (i2.mp hh)
          subst h1
          refine ⟨.misaligned, ?_, fun hh => h2 hh.2⟩
          simp only [StepIt.drain, StepIt.next, StepIt.step, ne_eq, not_true_eq_false, h2', not_false_eq_true,
            Bool.false_eq_true, ite_false, ite_true, expected, List.take_nil, List.map_nil, List.nil_append]
          rw [StepIt.drain_errored _ rfl]
      · right
        have h1' : ¬ h.ref.coordOf t = h.ref.coordOf te := fun hh => h1 (i1.mp hh)
        refine ⟨.misaligned, ?_, fun hh => h1 hh.1⟩
        simp only [StepIt.drain, StepIt.next, StepIt.step, ne_eq, h1', not_false_eq_true,
          Bool.false_eq_true, ite_false, ite_true, expected, List.take_nil, List.map_nil, List.nil_append]
        rw [StepIt.drain_errored _ rfl]
  | cons r rs ih =>
    intro t q fuel ht hq hf
    cases fuel with
    | zero => simp at hf
    | succ f =>
      simp only [sumT, sumQ]
      have e1 := coordOf_move_iff h.ref t r.size ht hrs
      by_cases c1 : t + r.size ≤ h.ref.bound
      · rw [if_pos c1] at e1
        have e5 := tryNew_coordOf h.ref t r.size c1
        have e2 := coordOf_move_iff h.qry q r.size hq hqs
        by_cases c2 : q + r.size ≤ h.qry.bound
        · rw [if_pos c2] at e2
          have e6 := tryNew_coordOf h.qry q r.size c2
          have e3 := optMove_coordOf h.qry (q + r.size) r.dq c2 hqs
          by_cases c3 : q + r.size + r.dq.getD 0 ≤ h.qry.bound
          · rw [if_pos c3] at e3
            have e4 := optMove_coordOf h.ref (t + r.size) r.dt c1 hrs
            by_cases c4 : t + r.size + r.dt.getD 0 ≤ h.ref.bound
            · rw [if_pos c4] at e4
              have e7 : Pair.tryNew (h.ref.ivOf t r.size) (h.qry.ivOf q r.size)
                  = .ok ⟨h.ref.ivOf t r.size, h.qry.ivOf q r.size⟩ := by
                apply Pair.tryNew_ok
                rcases h with ⟨sc, ⟨n1, s1, st1, a1, b1⟩, ⟨n2, s2, st2, a2, b2⟩, id⟩
                cases st1 <;> cases st2 <;> simp only [Interval.count, Seq.ivOf, Seq.bound] at * <;> omega
              obtain ⟨k, hk, hcase⟩ := ih (t + r.size + r.dt.getD 0) (q + r.size + r.dq.getD 0) f c4 c3
                (by simp at hf; omega)
              refine ⟨k + 1, by simp; omega, ?_⟩
              rcases hcase with ⟨hd, hkl, hs1, hs2⟩ | ⟨e, hd, hns⟩
              · left
                refine ⟨?_, by simp; omega, by omega, by omega⟩
                simp only [StepIt.drain, StepIt.next, StepIt.step, Bool.false_eq_true, ite_false,
                  e1, e2, e3, e4, e5, e6, e7, expected, List.take_succ_cons, List.map_cons]
                rw [hd]
              · right
                refine ⟨e, ?_, fun hh => hns ⟨by omega, by omega⟩⟩
                simp only [StepIt.drain, StepIt.next, StepIt.step, Bool.false_eq_true, ite_false,
                  e1, e2, e3, e4, e5, e6, e7, expected, List.take_succ_cons, List.map_cons, List.cons_append]
                rw [hd]
            · rw [if_neg c4] at e4
              refine ⟨0, Nat.zero_le _, Or.inr ⟨.oob 3, ?_, fun hh => by omega⟩⟩
              simp only [StepIt.drain, StepIt.next, StepIt.step, Bool.false_eq_true, ite_false,
                e1, e2, e3, e4, e5, e6, List.take_zero, List.map_nil, List.nil_append]
              rw [StepIt.drain_errored _ rfl]
          · rw [if_neg c3] at e3
            refine ⟨0, Nat.zero_le _, Or.inr ⟨.oob 2, ?_, fun hh => by omega⟩⟩
            simp only [StepIt.drain, StepIt.next, StepIt.step, Bool.false_eq_true, ite_false,
              e1, e2, e3, e5, e6, List.take_zero, List.map_nil, List.nil_append]
            rw [StepIt.drain_errored _ rfl]
        · rw [if_neg c2] at e2
          refine ⟨0, Nat.zero_le _, Or.inr ⟨.oob 1, ?_, fun hh => by omega⟩⟩
          simp only [StepIt.drain, StepIt.next, StepIt.step, Bool.false_eq_true, ite_false,
            e1, e2, e5, List.take_zero, List.map_nil, List.nil_append]
          rw [StepIt.drain_errored _ rfl]
      · rw [if_neg c1] at e1
        refine ⟨0, Nat.zero_le _, Or.inr ⟨.oob 0, ?_, fun hh => by omega⟩⟩
        simp only [StepIt.drain, StepIt.next, StepIt.step, Bool.false_eq_true, ite_false,
          e1, List.take_zero, List.map_nil, List.nil_append]
        rw [StepIt.drain_errored _ rfl]

end CF
