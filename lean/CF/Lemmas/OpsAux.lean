/-
  Lemmas about reader histories (`Ops`) and the absence of look-ahead in the section iterator.
-/
import CF.Lemmas.Sections
import CF.Model.Ops
namespace CF

/-- when `go` yields a section it has consumed exactly through the terminating data line, and it
    yields the same section whatever follows that line -/
theorem go_item_ok (ls : List Raw) : ∀ (b : Option (Hdr × List Rec)) (it it' : SecIt) (s : Sec)
    (rest' : List Raw), Inv b it → SecIt.go b it ls = (.item (.ok s), it', rest') →
    ∃ c0 last, ls = c0 ++ Raw.line (.data last) :: rest' ∧ last.kind = .term ∧
      s.data.getLast? = some last ∧
      ∀ other, SecIt.go b it (c0 ++ Raw.line (.data last) :: other) = (.item (.ok s), it', other) := by
  induction ls with
  | nil =>
    intro b it it' s rest' _ h
    simp only [SecIt.go] at h
    cases hst : it.st <;> simp [hst] at h
  | cons x rest ih =>
    intro b it it' s rest' hinv h
    cases x with
    | io => simp [SecIt.go] at h
    | unparsable t => simp [SecIt.go] at h
    | line l =>
      simp only [Inv] at hinv
      rcases it with ⟨st, n⟩
      cases st <;> cases l <;> cases b <;> simp at hinv
      all_goals simp only [SecIt.go, getState] at h
      -- between/empty/none : recurse
      · obtain ⟨c0, last, h1, h2, h3, h4⟩ := ih none ⟨.between, n + 1⟩ it' s rest' (by simp [Inv]) h
        refine ⟨Raw.line .empty :: c0, last, by rw [h1]; rfl, h2, h3, ?_⟩
        intro other
        simp only [List.cons_append, SecIt.go, getState]
        exact h4 other
      -- between/header/none : recurse with builder
      · rename_i hd
        obtain ⟨c0, last, h1, h2, h3, h4⟩ :=
          ih (some (hd, [])) ⟨.reading, n + 1⟩ it' s rest' (by simp [Inv]) h
        refine ⟨Raw.line (.header hd) :: c0, last, by rw [h1]; rfl, h2, h3, ?_⟩
        intro other
        simp only [List.cons_append, SecIt.go, getState]
        exact h4 other
      -- between/data/none : error
      · simp at h
      -- reading/empty/some : error
      · simp at h
      -- reading/header/some : error
      · simp at h
      -- reading/data/some
      · rename_i r hb
        rcases hb with ⟨hd, ds⟩
        rcases r with ⟨rc, rdt, rdq, k⟩
        cases k
        · -- terminating: yields
          simp only at h
          cases hds : ds ++ [(⟨rc, rdt, rdq, .term⟩ : Rec)] with
          | nil => simp at hds
          | cons d dd =>
            rw [hds] at h
            simp only [Prod.mk.injEq, Out3.item.injEq, Except.ok.injEq] at h
            obtain ⟨hs, hit, hrest⟩ := h
            subst hs hit hrest
            refine ⟨[], ⟨rc, rdt, rdq, .term⟩, rfl, rfl, ?_, ?_⟩
            · simp only; rw [← hds]; simp
            · intro other
              simp only [List.nil_append, SecIt.go, getState, hds]
        · -- non-terminating: recurse
          simp only at h
          obtain ⟨c0, last, h1, h2, h3, h4⟩ :=
            ih (some (hd, ds ++ [⟨rc, rdt, rdq, .nonterm⟩])) ⟨.reading, n + 1⟩ it' s rest'
              (by simp [Inv]) h
          refine ⟨Raw.line (.data ⟨rc, rdt, rdq, .nonterm⟩) :: c0, last, by rw [h1]; rfl, h2, h3, ?_⟩
          intro other
          simp only [List.cons_append, SecIt.go, getState]
          exact h4 other

/-! ### suffixes -/

theorem readLine_snd (rs : List RawRes) : (readLine rs).2 = rs.drop 1 := by
  cases rs with
  | nil => rfl
  | cons r rs =>
    cases r with
    | io => rfl
    | utf8 => rfl
    | line n t => simp only [readLine]; split <;> rfl

theorem linesNext_snd : ∀ (k : Nat) (rs : List RawRes), (linesNext k rs).2 = rs.drop k := by
  intro k
  induction k with
  | zero => intro rs; rfl
  | succ k ih =>
    intro rs
    have h1 := readLine_snd rs
    simp only [linesNext]
    generalize hr : readLine rs = res at h1
    obtain ⟨x, rs'⟩ := res
    simp only at h1
    have h2 : (linesNext k rs').2 = rs.drop (k + 1) := by
      rw [ih rs', h1, List.drop_drop, Nat.add_comm]
    cases x with
    | error e => exact h2
    | ok o => cases o <;> exact h2

theorem secsNext_snd : ∀ (k : Nat) (it : SecIt) (rs : List RawRes),
    ∃ j, j ≤ rs.length ∧ (secsNext k it rs).2 = rs.drop j := by
  intro k
  induction k with
  | zero => intro it rs; exact ⟨0, by omega, rfl⟩
  | succ k ih =>
    intro it rs
    simp only [secsNext]
    have h1 : (secsNext1 it rs).2.2 = rs.drop (rs.length - (it.next (rs.map Raw.ofRes)).2.2.length) := rfl
    generalize hr : secsNext1 it rs = res at h1
    generalize rs.length - (it.next (rs.map Raw.ofRes)).2.2.length = j0 at h1
    obtain ⟨x, it', rs'⟩ := res
    simp only at h1
    by_cases hj : j0 ≤ rs.length
    · cases x with
      | panic s => exact ⟨j0, hj, h1⟩
      | done =>
        obtain ⟨j, hj1, hj2⟩ := ih it' rs'
        refine ⟨j0 + j, ?_, ?_⟩
        · rw [h1] at hj1; simp at hj1; omega
        · simp only; rw [hj2, h1, List.drop_drop]
      | item y =>
        obtain ⟨j, hj1, hj2⟩ := ih it' rs'
        refine ⟨j0 + j, ?_, ?_⟩
        · rw [h1] at hj1; simp at hj1; omega
        · simp only; rw [hj2, h1, List.drop_drop]
    · have h0 : rs' = [] := by rw [h1]; exact List.drop_of_length_le (by omega)
      subst h0
      cases x with
      | panic s => exact ⟨rs.length, Nat.le_refl _, by simp⟩
      | done =>
        obtain ⟨j, hj1, hj2⟩ := ih it' []
        refine ⟨rs.length, Nat.le_refl _, ?_⟩
        simp only; rw [hj2]; simp
      | item y =>
        obtain ⟨j, hj1, hj2⟩ := ih it' []
        refine ⟨rs.length, Nat.le_refl _, ?_⟩
        simp only; rw [hj2]; simp

theorem step_suffix (op : ReaderOp) (rs : List RawRes) :
    ∃ k, k ≤ rs.length ∧ (Ops.step op rs).2 = rs.drop k := by
  cases op with
  | raw =>
    cases rs with
    | nil => exact ⟨0, by simp, rfl⟩
    | cons r rs => exact ⟨1, by simp, rfl⟩
  | line =>
    refine ⟨min 1 rs.length, Nat.min_le_right _ _, ?_⟩
    show (readLine rs).2 = _
    rw [readLine_snd]
    cases rs <;> simp
  | lines k =>
    refine ⟨min k rs.length, Nat.min_le_right _ _, ?_⟩
    show (linesNext k rs).2 = _
    rw [linesNext_snd]
    by_cases h : k ≤ rs.length
    · rw [Nat.min_eq_left h]
    · rw [Nat.min_eq_right (by omega), List.drop_of_length_le (by omega)]; simp
  | secs k => exact secsNext_snd k SecIt.new rs

theorem run_cons (op : ReaderOp) (ops : List ReaderOp) (rs : List RawRes) :
    Ops.run (op :: ops) rs =
      ((Ops.step op rs).1 :: (Ops.run ops (Ops.step op rs).2).1, (Ops.run ops (Ops.step op rs).2).2) := rfl

theorem run_suffix : ∀ (ops : List ReaderOp) (rs : List RawRes),
    ∃ k, k ≤ rs.length ∧ (Ops.run ops rs).2 = rs.drop k := by
  intro ops
  induction ops with
  | nil => intro rs; exact ⟨0, by omega, rfl⟩
  | cons op ops ih =>
    intro rs
    rw [run_cons]
    obtain ⟨k1, hk1, e1⟩ := step_suffix op rs
    obtain ⟨k2, hk2, e2⟩ := ih (Ops.step op rs).2
    refine ⟨k1 + k2, ?_, ?_⟩
    · rw [e1] at hk2; simp at hk2; omega
    · simp only; rw [e2, e1, List.drop_drop]

theorem run_append : ∀ (ops₁ ops₂ : List ReaderOp) (rs : List RawRes),
    Ops.run (ops₁ ++ ops₂) rs =
      ((Ops.run ops₁ rs).1 ++ (Ops.run ops₂ (Ops.run ops₁ rs).2).1, (Ops.run ops₂ (Ops.run ops₁ rs).2).2) := by
  intro ops₁
  induction ops₁ with
  | nil => intro ops₂ rs; simp [Ops.run]
  | cons op ops ih =>
    intro ops₂ rs
    rw [List.cons_append, run_cons, run_cons, ih]
    simp

theorem section_no_lookahead (it it' : SecIt) (hst : it.st = .between) (rs rest : List RawRes) (s : Sec)
    (h : secsNext1 it rs = (.item (.ok s), it', rest)) :
    ∃ k, 0 < k ∧ k ≤ rs.length ∧ rest = rs.drop k ∧
      (∃ last, s.data.getLast? = some last ∧ last.kind = .term ∧
        (rs.take k).getLast?.map Raw.ofRes = some (.line (.data last))) ∧
      ∀ other, secsNext1 it (rs.take k ++ other) = (.item (.ok s), it', other) := by
  simp only [secsNext1, SecIt.next] at h
  generalize hg : SecIt.go none it (rs.map Raw.ofRes) = res at h
  obtain ⟨o, it2, rest'⟩ := res
  simp only [Prod.mk.injEq] at h
  obtain ⟨ho, hit, hrest⟩ := h
  subst ho hit
  obtain ⟨c0, last, h1, h2, h3, h4⟩ := go_item_ok _ none it it2 s rest' (by simp [Inv, hst]) hg
  have hlen : rs.length = c0.length + 1 + rest'.length := by
    have := congrArg List.length h1
    simp at this; omega
  have hT : (rs.take (c0.length + 1)).map Raw.ofRes = c0 ++ [Raw.line (.data last)] := by
    rw [List.map_take, h1]
    have : c0 ++ Raw.line (.data last) :: rest' = (c0 ++ [Raw.line (.data last)]) ++ rest' := by simp
    rw [this]
    exact List.take_left' (by simp)
  refine ⟨c0.length + 1, by omega, by omega, ?_, ⟨last, h3, h2, ?_⟩, ?_⟩
  · rw [← hrest]; congr 1; omega
  · rw [← List.getLast?_map, hT]; simp
  · intro other
    simp only [secsNext1, SecIt.next]
    have : (rs.take (c0.length + 1) ++ other).map Raw.ofRes
        = c0 ++ Raw.line (.data last) :: other.map Raw.ofRes := by
      rw [List.map_append, hT]; simp
    rw [this, h4]
    have hl : (rs.take (c0.length + 1)).length = c0.length + 1 := by
      rw [List.length_take]; omega
    simp only [List.length_append, List.length_map, Prod.mk.injEq, true_and]
    rw [hl, Nat.add_sub_cancel]
    exact List.drop_left' hl

end CF
