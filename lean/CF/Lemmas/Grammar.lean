/-
  Lemmas tying the section-iterator model to the line grammar.
-/
import CF.Spec.Grammar
import CF.Lemmas.Sections
namespace CF

/-- inside a section: the data lines are consumed through the terminating one, nothing beyond it -/
theorem go_section (h : Hdr) (last : Rec) (hl : last.kind = .term) (rest : List Raw) :
    ∀ (mid : List Rec) (_ : ∀ r ∈ mid, r.kind = .nonterm) (ds : List Rec) (n : Nat),
      SecIt.go (some (h, ds)) ⟨.reading, n⟩
          ((mid.map (fun r => Raw.line (.data r))) ++ [Raw.line (.data last)] ++ rest)
        = (.item (.ok ⟨h, ds ++ mid ++ [last]⟩), ⟨.between, n + mid.length + 1⟩, rest) := by
  intro mid
  induction mid with
  | nil =>
    intro _ ds n
    simp only [List.map_nil, List.nil_append, List.cons_append, SecIt.go, getState, hl, List.append_nil, List.length_nil,
      Nat.add_zero]
    cases hds : ds ++ [last] with
    | nil => simp at hds
    | cons d dd => simp
  | cons r rs ih =>
    intro hm ds n
    have hr : r.kind = .nonterm := hm r (List.mem_cons_self ..)
    simp only [List.map_cons, List.cons_append, SecIt.go, getState, hr]
    have := ih (fun x hx => hm x (List.mem_cons_of_mem _ hx)) (ds ++ [r]) (n + 1)
    simp only [List.append_assoc, List.cons_append, List.nil_append] at this ⊢
    rw [this]
    simp [Nat.add_assoc, Nat.add_comm 1]

/-- C05 (error-free half) / C13 (file round trip): a stream that conforms to the grammar yields exactly
    its sections, in order, and then ends. -/
theorem drain_parses {ls : List Line} {ss : List Sec} (hp : Parses ls ss) :
    ∀ (n : Nat) (fuel : Nat), ss.length + 1 ≤ fuel →
      SecIt.drain fuel ⟨.between, n⟩ (ls.map Raw.line) = ss.map (fun s => Out3.item (.ok s)) ++ [.done] := by
  induction hp with
  | nil =>
    intro n fuel hf
    cases fuel with
    | zero => simp at hf
    | succ f => simp [SecIt.drain, SecIt.next, SecIt.go]
  | blank _ ih =>
    intro n fuel hf
    cases fuel with
    | zero => omega
    | succ f =>
      have := ih (n + 1) (f + 1) hf
      simp only [SecIt.drain, SecIt.next, List.map_cons, SecIt.go, getState] at this ⊢
      exact this
  | sec h mid last hm hl _ ih =>
    intro n fuel hf
    cases fuel with
    | zero => omega
    | succ f =>
      simp only [SecIt.drain, SecIt.next, List.map_cons, List.map_append, List.map_map, SecIt.go, getState]
      have hg := go_section h last hl (List.map Raw.line ‹List Line›) mid hm [] (n + 1)
      simp only [List.nil_append] at hg
      have hmap : List.map (Raw.line ∘ Line.data) mid = mid.map (fun r => Raw.line (.data r)) := by
        simp [Function.comp_def]
      simp only [List.map_cons, List.map_nil, hmap]
      rw [hg]
      simp only [List.length_cons] at hf
      simp only [List.cons_append]
      rw [ih _ f (by omega)]

end CF
