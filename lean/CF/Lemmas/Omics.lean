/-
  A LITERAL transcription of `omics-coordinate 0.2.0`'s interbase `Interval` (stored as its two
  coordinates `start`, `end`, every method with its per-strand `match`) and of
  `ContiguousIntervalPair`, and the proof that the forward-normal-form model the theorems are about
  (`CF/Model/Basic.lean`) refines it. This removes the normal-form reformulation from the trusted base:
  what remains trusted for this layer is only that the transcription below is literal.
-/
import CF.Lemmas.Pair
namespace CF

/-- `Interval<Interbase> { start, end }` as omics stores it -/
structure OIv where
  start : Coord
  stop : Coord
deriving DecidableEq, Repr

/-- `Interval::try_new` -/
def OIv.tryNew (s e : Coord) : Except IvErr OIv :=
  if s.contig ≠ e.contig then .error .contigs
  else if s.strand ≠ e.strand then .error .strands
  else match s.strand with
    | .pos => if s.pos > e.pos then .error .negSized else .ok ⟨s, e⟩
    | .neg => if e.pos > s.pos then .error .negSized else .ok ⟨s, e⟩

def OIv.contig (i : OIv) : List UInt8 := i.start.contig
def OIv.strand (i : OIv) : Strand := i.start.strand

/-- `Interval::contains_coordinate` -/
def OIv.contains (i : OIv) (c : Coord) : Bool :=
  if i.contig ≠ c.contig then false
  else if i.strand ≠ c.strand then false
  else match i.strand with
    | .pos => decide (i.start.pos ≤ c.pos) && decide (i.stop.pos ≥ c.pos)
    | .neg => decide (i.start.pos ≥ c.pos) && decide (i.stop.pos ≤ c.pos)

/-- `Position::distance_unchecked` -/
def dist (a b : Nat) : Nat := if a ≥ b then a - b else b - a

/-- `count_entities` (interbase): `start.distance_unchecked(end)` -/
def OIv.count (i : OIv) : Nat := dist i.start.pos i.stop.pos

/-- `Interval::coordinate_offset` -/
def OIv.offset (i : OIv) (c : Coord) : Option Nat :=
  if !i.contains c then none else some (dist c.pos i.start.pos)

/-- `Interval::coordinate_at_offset` -/
def OIv.atOffset (i : OIv) (k : Nat) : Option Coord :=
  match i.start.moveForward k with
  | none => none
  | some c => if i.contains c then some c else none

/-- `Interval::clamp` -/
def OIv.clamp (a b : OIv) : Out IvErr OIv :=
  if a.start.contig ≠ b.start.contig then .err .clampContig
  else if a.start.strand ≠ b.start.strand then .err .clampStrand
  else
    let ns := match a.start.strand with | .pos => max a.start.pos b.start.pos | .neg => min a.start.pos b.start.pos
    let ne := match a.start.strand with | .pos => min a.stop.pos b.stop.pos | .neg => max a.stop.pos b.stop.pos
    match OIv.tryNew ⟨a.start.contig, a.start.strand, ns⟩ ⟨a.stop.contig, a.stop.strand, ne⟩ with
    | .ok i => .ok i
    | .error _ => .panic "omics_clamp_unwrap"

/-- `ContiguousIntervalPair(reference, query)` over literal intervals -/
structure OPair where
  ref : OIv
  qry : OIv
deriving DecidableEq, Repr

def OPair.tryNew (r q : OIv) : Except PairErr OPair :=
  if r.count ≠ q.count then .error (.counts r.count q.count) else .ok ⟨r, q⟩

def OPair.lift (p : OPair) (c : Coord) : Option Coord :=
  match p.ref.offset c with
  | none => none
  | some off => p.qry.atOffset off

/-- `ContiguousIntervalPair::clamp` (with repair D3), literally -/
def OPair.clamp (p : OPair) (iv : OIv) : Out PairErr OPair :=
  match p.ref.clamp iv with
  | .err e => .err (.interval e)
  | .panic s => .panic s
  | .ok r =>
    match p.lift r.start with
    | none => .panic "clamp_start_image"
    | some qs =>
      if r.start = r.stop then
        match OIv.tryNew qs qs with
        | .error _ => .panic "clamp_query_interval"
        | .ok q => match OPair.tryNew r q with | .ok p' => .ok p' | .error e => .err e
      else
      match (r.stop.moveBackward 1).filter (fun c => p.ref.contains c) with
      | none => .panic "clamp_end_minus_one"
      | some e1 =>
        match p.lift e1 with
        | none => .panic "clamp_end_image"
        | some qe1 =>
          match qe1.moveForward 1 with
          | none => .panic "clamp_plus_one"
          | some qe =>
            match OIv.tryNew qs qe with
            | .error _ => .panic "clamp_query_interval"
            | .ok q =>
              match OPair.tryNew r q with
              | .ok p' => .ok p'
              | .error e => .err e

/-! ### the abstraction to forward normal form -/

def OIv.toNF (i : OIv) : Interval :=
  ⟨i.start.contig, i.start.strand, min i.start.pos i.stop.pos, max i.start.pos i.stop.pos⟩

def OPair.toNF (p : OPair) : Pair := ⟨p.ref.toNF, p.qry.toNF⟩

/-- the invariant `try_new` establishes (every `Interval` value of omics satisfies it) -/
def OIv.Good (i : OIv) : Prop :=
  i.start.contig = i.stop.contig ∧ i.start.strand = i.stop.strand ∧
  (match i.start.strand with | .pos => i.start.pos ≤ i.stop.pos | .neg => i.stop.pos ≤ i.start.pos)

def Out.mapOk {ε α β : Type} (f : α → β) : Out ε α → Out ε β
  | .ok a => .ok (f a)
  | .err e => .err e
  | .panic s => .panic s

theorem OIv.tryNew_refines (s e : Coord) : (OIv.tryNew s e).map OIv.toNF = Interval.tryNew s e := by
  rcases s with ⟨c1, s1, p1⟩; rcases e with ⟨c2, s2, p2⟩
  simp only [OIv.tryNew, Interval.tryNew]
  by_cases hc : c1 = c2
  · by_cases hs : s1 = s2
    · subst hc; subst hs
      cases s1
      · by_cases h : p1 > p2
        · simp [h, Except.map]
        · simp [h, Except.map, OIv.toNF]; omega
      · by_cases h : p2 > p1
        · simp [h, Except.map]
        · simp [h, Except.map, OIv.toNF]; omega
    · simp [hc, hs, Except.map]
  · simp [hc, Except.map]

theorem OIv.tryNew_good (s e : Coord) (i : OIv) (h : OIv.tryNew s e = .ok i) : i.Good := by
  rcases s with ⟨c1, s1, p1⟩; rcases e with ⟨c2, s2, p2⟩
  simp only [OIv.tryNew] at h
  by_cases hc : c1 = c2
  · by_cases hs : s1 = s2
    · subst hc; subst hs
      cases s1
      · by_cases hp : p1 > p2
        · simp [hp] at h
        · simp [hp] at h; subst h; simp [OIv.Good]; omega
      · by_cases hp : p2 > p1
        · simp [hp] at h
        · simp [hp] at h; subst h; simp [OIv.Good]; omega
    · simp [hc, hs] at h
  · simp [hc] at h

theorem OIv.ends_refine (i : OIv) (h : i.Good) : i.toNF.start = i.start ∧ i.toNF.stop = i.stop := by
  rcases i with ⟨⟨c1, s1, p1⟩, ⟨c2, s2, p2⟩⟩
  obtain ⟨hc, hs, hd⟩ := h
  simp only at hc hs hd; subst hc; subst hs
  cases s1 <;> simp only at hd <;>
    simp [OIv.toNF, Interval.start, Interval.stop, Nat.min_def, Nat.max_def] <;> omega

theorem OIv.contains_refines (i : OIv) (h : i.Good) (c : Coord) : i.contains c = i.toNF.contains c := by
  rcases i with ⟨⟨c1, s1, p1⟩, ⟨c2, s2, p2⟩⟩
  obtain ⟨hc, hs, hd⟩ := h
  simp only at hc hs hd; subst hc; subst hs
  rcases c with ⟨c3, s3, p3⟩
  rw [Bool.eq_iff_iff, contains_iff]
  simp only [OIv.contains, OIv.toNF, OIv.contig, OIv.strand]
  by_cases hc : c1 = c3
  · by_cases hs : s1 = s3
    · subst hc; subst hs
      cases s1 <;> simp only at hd <;> simp <;> omega
    · simp [hc, hs]
  · simp [hc]

theorem OIv.count_refines (i : OIv) (h : i.Good) : i.count = i.toNF.count := by
  rcases i with ⟨⟨c1, s1, p1⟩, ⟨c2, s2, p2⟩⟩
  simp only [OIv.count, dist, OIv.toNF, Interval.count, Nat.min_def, Nat.max_def]
  split <;> split <;> omega

theorem OIv.offset_refines (i : OIv) (h : i.Good) (c : Coord) : i.offset c = i.toNF.offset c := by
  have hcr := OIv.contains_refines i h c
  simp only [OIv.offset, Interval.offset, ← hcr]
  cases hcc : i.contains c
  · simp
  · rw [hcr, contains_iff] at hcc
    rcases i with ⟨⟨c1, s1, p1⟩, ⟨c2, s2, p2⟩⟩
    obtain ⟨hc, hs, hd⟩ := h
    simp only at hc hs hd; subst hc; subst hs
    simp only [OIv.toNF] at hcc
    cases s1 <;> simp only at hd <;> simp [OIv.toNF, Interval.offOf, dist] <;> split <;> omega

theorem OIv.atOffset_refines (i : OIv) (h : i.Good) (k : Nat) : i.atOffset k = i.toNF.atOffset k := by
  simp only [OIv.atOffset, Interval.atOffset, (OIv.ends_refine i h).1]
  cases i.start.moveForward k with
  | none => rfl
  | some c => simp only [OIv.contains_refines i h c]

theorem OIv.clamp_refines (a b : OIv) (ha : a.Good) (hb : b.Good) :
    (a.clamp b).mapOk OIv.toNF = a.toNF.clamp b.toNF := by
  rcases a with ⟨⟨c1, s1, p1⟩, ⟨c2, s2, p2⟩⟩
  obtain ⟨hc, hs, hd⟩ := ha
  simp only at hc hs hd; subst hc; subst hs
  rcases b with ⟨⟨d1, t1, q1⟩, ⟨d2, t2, q2⟩⟩
  obtain ⟨hc, hs, hd'⟩ := hb
  simp only at hc hs hd'; subst hc; subst hs
  simp only [OIv.clamp, Interval.clamp, OIv.toNF]
  by_cases hc : c1 = d1
  · by_cases hs : s1 = t1
    · subst hc; subst hs
      cases s1
      · simp only at hd hd'
        simp only [Nat.min_eq_left hd, Nat.max_eq_right hd, Nat.min_eq_left hd', Nat.max_eq_right hd']
        by_cases hm : max p1 q1 ≤ min p2 q2
        · have hm2 : ¬ (max p1 q1 > min p2 q2) := by omega
          simp only [OIv.tryNew, hm, hm2, Out.mapOk, OIv.toNF, ne_eq, not_true_eq_false, ite_false, ite_true,
            Nat.min_eq_left hm, Nat.max_eq_right hm]
        · have hm2 : max p1 q1 > min p2 q2 := by omega
          simp only [OIv.tryNew, hm, hm2, Out.mapOk, ne_eq, not_true_eq_false, ite_false, ite_true]
      · simp only at hd hd'
        simp only [Nat.min_eq_right hd, Nat.max_eq_left hd, Nat.min_eq_right hd', Nat.max_eq_left hd']
        by_cases hm : max p2 q2 ≤ min p1 q1
        · have hm2 : ¬ (max p2 q2 > min p1 q1) := by omega
          simp only [OIv.tryNew, hm, hm2, Out.mapOk, OIv.toNF, ne_eq, not_true_eq_false, ite_false, ite_true,
            Nat.min_eq_right hm, Nat.max_eq_left hm]
        · have hm2 : max p2 q2 > min p1 q1 := by omega
          simp only [OIv.tryNew, hm, hm2, Out.mapOk, ne_eq, not_true_eq_false, ite_false, ite_true]
    · simp only [hc, hs, Out.mapOk, ne_eq, not_true_eq_false, not_false_eq_true, ite_false, ite_true]
  · simp only [hc, Out.mapOk, ne_eq, not_false_eq_true, ite_true]

theorem OIv.clamp_good (a b r : OIv) (ha : a.Good) (hb : b.Good) (h : a.clamp b = .ok r) : r.Good := by
  have _ := ha; have _ := hb
  simp only [OIv.clamp] at h
  split at h
  · cases h
  · split at h
    · cases h
    · split at h
      · rename_i i hi
        cases h
        exact OIv.tryNew_good _ _ _ hi
      · cases h

theorem OPair.tryNew_refines (r q : OIv) (hr : r.Good) (hq : q.Good) :
    (OPair.tryNew r q).map OPair.toNF = Pair.tryNew r.toNF q.toNF := by
  simp only [OPair.tryNew, Pair.tryNew, OIv.count_refines r hr, OIv.count_refines q hq]
  split <;> simp [Except.map, OPair.toNF]

theorem OPair.lift_refines (p : OPair) (hr : p.ref.Good) (hq : p.qry.Good) (c : Coord) :
    p.lift c = p.toNF.lift c := by
  simp only [OPair.lift, Pair.lift, OPair.toNF, OIv.offset_refines _ hr]
  cases p.ref.toNF.offset c with
  | none => rfl
  | some off => simp only [OIv.atOffset_refines _ hq]

theorem OIv.point_iff (r : OIv) (h : r.Good) : r.start = r.stop ↔ r.toNF.lo = r.toNF.hi := by
  rcases r with ⟨⟨c1, s1, p1⟩, ⟨c2, s2, p2⟩⟩
  obtain ⟨hc, hs, hd⟩ := h
  simp only at hc hs hd; subst hc; subst hs
  simp [OIv.toNF]; omega

/-- the last two steps of `clamp` (build the query interval, then the pair) agree -/
theorem OPair.clamp_finish_refines (r : OIv) (hr : r.Good) (qs qe : Coord) :
    (match OIv.tryNew qs qe with
      | .error _ => (Out.panic "clamp_query_interval" : Out PairErr OPair)
      | .ok q => match OPair.tryNew r q with | .ok p' => .ok p' | .error e => .err e).mapOk OPair.toNF =
    (match Interval.tryNew qs qe with
      | .error _ => (Out.panic "clamp_query_interval" : Out PairErr Pair)
      | .ok q => match Pair.tryNew r.toNF q with | .ok p' => .ok p' | .error e => .err e) := by
  rw [← OIv.tryNew_refines qs qe]
  cases hq : OIv.tryNew qs qe with
  | error e => simp only [Except.map, Out.mapOk]
  | ok q =>
    have hqg := OIv.tryNew_good _ _ _ hq
    simp only [Except.map]
    rw [← OPair.tryNew_refines r q hr hqg]
    cases OPair.tryNew r q with
    | error e => simp only [Except.map, Out.mapOk]
    | ok p' => simp only [Except.map, Out.mapOk]

/-- **the model's `clamp` is the code's `clamp`**: same value, same error, same panic site -/
theorem OPair.clamp_refines (p : OPair) (iv : OIv) (hr : p.ref.Good) (hq : p.qry.Good) (hi : iv.Good) :
    (p.clamp iv).mapOk OPair.toNF = p.toNF.clamp iv.toNF := by
  have h1 := OIv.clamp_refines p.ref iv hr hi
  have hpr : p.toNF.ref = p.ref.toNF := rfl
  unfold OPair.clamp Pair.clamp
  rw [hpr, ← h1]
  cases hcl : p.ref.clamp iv with
  | err e => simp only [Out.mapOk]
  | panic s => simp only [Out.mapOk]
  | ok r =>
    have hrg := OIv.clamp_good _ _ _ hr hi hcl
    obtain ⟨hst, hsp⟩ := OIv.ends_refine r hrg
    simp only [Out.mapOk, hst, hsp, ← OPair.lift_refines p hr hq, OIv.point_iff r hrg,
      ← OIv.contains_refines p.ref hr]
    cases p.lift r.start with
    | none => rfl
    | some qs =>
      simp only
      by_cases hpt : r.toNF.lo = r.toNF.hi
      · simp only [hpt, ite_true]
        exact OPair.clamp_finish_refines r hrg qs qs
      · simp only [hpt, ite_false]
        cases Option.filter (fun c => p.ref.contains c) (r.stop.moveBackward 1) with
        | none => rfl
        | some e1 =>
          simp only
          cases p.lift e1 with
          | none => rfl
          | some qe1 =>
            simp only
            cases qe1.moveForward 1 with
            | none => rfl
            | some qe =>
              simp only
              exact OPair.clamp_finish_refines r hrg qs qe

end CF
