/-
  Lemmas about the line-level specification (`splitLines`, `stripEol`, `encodeLines`) and its
  agreement with `rawLines` over chunk-only sources.
-/
import CF.Lemmas.SourceAux
import CF.Spec.Lines
namespace CF

/-! ### splitLines by first line -/

theorem splitLinesAux_eq : ∀ (bs cur : List UInt8),
    splitLinesAux bs cur = match splitNL bs with
      | some (pre, post) => (cur ++ pre) :: splitLinesAux post []
      | none => if cur ++ bs = [] then [] else [cur ++ bs] := by
  intro bs
  induction bs with
  | nil => intro cur; simp [splitLinesAux, splitNL]
  | cons b bs ih =>
    intro cur
    simp only [splitLinesAux, splitNL]
    by_cases hb : b = LF
    · simp [hb]
    · simp only [hb, ite_false]
      rw [ih]
      cases hs : splitNL bs with
      | none => simp
      | some p => obtain ⟨pre, post⟩ := p; simp

theorem splitLines_nil : splitLines [] = [] := by simp [splitLines, splitLinesAux]

theorem splitLines_some (bs pre post : List UInt8) (h : splitNL bs = some (pre, post)) :
    splitLines bs = pre :: splitLines post := by
  simp [splitLines, splitLinesAux_eq bs [], h]

theorem splitLines_none (bs : List UInt8) (h : splitNL bs = none) (hne : bs ≠ []) :
    splitLines bs = [bs] := by
  simp [splitLines, splitLinesAux_eq bs [], h, hne]

theorem splitLines_firstLine (bs : List UInt8) (hne : bs ≠ []) :
    splitLines bs = (firstLine bs).1 :: splitLines (firstLine bs).2 := by
  simp only [firstLine]
  cases hs : splitNL bs with
  | none => simp [splitLines_none bs hs hne, splitLines_nil]
  | some p => obtain ⟨pre, post⟩ := p; simp [splitLines_some bs pre post hs]

theorem firstLine_ne_nil (bs : List UInt8) (hne : bs ≠ []) : (firstLine bs).1 ≠ [] := by
  simp only [firstLine]
  cases hs : splitNL bs with
  | none => simpa using hne
  | some p => obtain ⟨pre, post⟩ := p; exact (splitNL_some_eq bs pre post hs).2

theorem splitLinesAux_pieces : ∀ (bs cur : List UInt8),
    (splitLinesAux bs cur).flatten = cur ++ bs ∧ ∀ p ∈ splitLinesAux bs cur, p ≠ [] := by
  intro bs
  induction bs with
  | nil =>
    intro cur
    simp only [splitLinesAux]
    split
    · rename_i h; simp [h]
    · rename_i h; simp [h]
  | cons b bs ih =>
    intro cur
    simp only [splitLinesAux]
    split
    · have := ih []
      refine ⟨by simp [this.1], ?_⟩
      intro p hp
      simp only [List.mem_cons] at hp
      rcases hp with hp | hp
      · subst hp; simp
      · exact this.2 p hp
    · have := ih (cur ++ [b])
      exact ⟨by simp [this.1], this.2⟩

/-! ### chunking -/

theorem rawLines_chunks (v : List UInt8 → Bool) : ∀ (n : Nat) (s : List Ev), weight s ≤ n → chunkOnly s →
    rawLines v s = linesOfBytes v (bytesOf s) := by
  intro n
  induction n with
  | zero =>
    intro s h _
    cases s with
    | nil => simp [linesOfBytes, bytesOf, splitLines_nil]; rfl
    | cons e r => cases e <;> simp [weight] at h <;> omega
  | succ n ih =>
    intro s h hc
    have hru := readUntil_chunks s [] hc
    generalize hr : readUntil s [] = res at hru
    obtain ⟨x, s'⟩ := res
    simp only [List.nil_append] at hru
    obtain ⟨h1, h2, h3⟩ := hru
    subst h1
    by_cases hb : bytesOf s = []
    · have : (firstLine (bytesOf s)).1 = [] := by rw [hb]; rfl
      rw [this] at hr
      rw [rawLines_none v _ _ (readLineRaw_nil v s s' hr), hb]
      simp [linesOfBytes, splitLines_nil]
    · have hne := firstLine_ne_nil _ hb
      have hrl := readLineRaw_ok v s s' _ hne hr
      have hw := weight_readLineRaw v s s' _ hrl
      rw [rawLines_some v _ _ _ hrl, ih s' (by omega) h2, h3]
      simp only [linesOfBytes]
      rw [splitLines_firstLine _ hb]
      simp [lineRes]

/-! ### stripEol -/

theorem stripEol_of_ne (t : List UInt8) (h : t.getLast? ≠ some LF) : stripEol t = t := by
  simp [stripEol, h]

theorem stripEol_LF (t : List UInt8) (h : t.getLast? ≠ some CR) : stripEol (t ++ [LF]) = t := by
  simp [stripEol, h]

theorem stripEol_CRLF (t : List UInt8) : stripEol (t ++ [CR, LF]) = t := by
  have : t ++ [CR, LF] = (t ++ [CR]) ++ [LF] := by simp
  rw [this]
  simp [stripEol]

theorem getLast?_ne_of_not_mem (t : List UInt8) (x : UInt8) (h : x ∉ t) : t.getLast? ≠ some x := by
  intro hl
  exact h (List.mem_of_getLast? hl)

/-! ### encodeLines -/

/-- what the two line terminators have in common -/
def GoodEol (eol : List UInt8) : Prop :=
  ∀ t : List UInt8, LF ∉ t → t.getLast? ≠ some CR →
    (∀ rest, splitNL (t ++ eol ++ rest) = some (t ++ eol, rest)) ∧ stripEol (t ++ eol) = t

theorem goodEol_LF : GoodEol [LF] := by
  intro t hlf hcr
  refine ⟨fun rest => ?_, stripEol_LF t hcr⟩
  simpa using splitNL_at_LF t rest hlf

theorem goodEol_CRLF : GoodEol [CR, LF] := by
  intro t hlf hcr
  refine ⟨fun rest => ?_, stripEol_CRLF t⟩
  have h : LF ∉ t ++ [CR] := by
    simp only [List.mem_append, List.mem_singleton, not_or]
    exact ⟨hlf, by decide⟩
  simpa using splitNL_at_LF (t ++ [CR]) rest h

theorem encode_endings (eol : List UInt8) (hg : GoodEol eol) (final : Bool) :
    ∀ (ts : List (List UInt8)), (∀ t ∈ ts, LF ∉ t) → (∀ t ∈ ts, t.getLast? ≠ some CR) →
      (final = false → ts.getLast? ≠ some []) →
      (splitLines (encodeLines eol final ts)).map stripEol = ts := by
  intro ts
  induction ts with
  | nil => intro _ _ _; simp [encodeLines, splitLines_nil]
  | cons t ts ih =>
    intro hlf hcr hlast
    have ht := hg t (hlf t (List.mem_cons_self ..)) (hcr t (List.mem_cons_self ..))
    cases ts with
    | nil =>
      simp only [encodeLines]
      cases final with
      | true =>
        have h1 := ht.1 []
        simp only [List.append_nil] at h1
        simp [splitLines_some _ _ _ h1, splitLines_nil, ht.2]
      | false =>
        have hne : t ≠ [] := by
          intro h; subst h; exact hlast rfl rfl
        have hlf' := hlf t (List.mem_cons_self ..)
        simp only [Bool.false_eq_true, ite_false]
        rw [splitLines_none t ((splitNL_none_iff t).2 hlf') hne]
        simp [stripEol_of_ne t (getLast?_ne_of_not_mem t LF hlf')]
    | cons t' ts =>
      simp only [encodeLines]
      rw [splitLines_some _ _ _ (ht.1 _)]
      simp only [List.map_cons, ht.2]
      congr 1
      apply ih
      · exact fun x hx => hlf x (List.mem_cons_of_mem _ hx)
      · exact fun x hx => hcr x (List.mem_cons_of_mem _ hx)
      · intro hf
        have := hlast hf
        simpa [List.getLast?_cons_cons] using this

end CF
