/-
  Arithmetic helpers for `Refine.lean`: sub-ranges of `Seq.ivOf` at the level of bases, and the
  offsets that `restrict` computes.
-/
import CF.Props.C03
namespace CF

/-- count of a strand-directed sub-range `[o1, o2)` of `ivOf t n` -/
theorem ivOf_sub_count (sq : Seq) (t n o1 o2 : Nat) (h : t + n ≤ sq.size) (h1 : o1 ≤ o2) (h2 : o2 ≤ n) :
    ((sq.ivOf t n).sub o1 o2).count = o2 - o1 := by
  obtain ⟨nm, sz, st, a, b⟩ := sq
  cases st <;> simp only [Seq.ivOf, Interval.sub, Interval.count] at * <;> omega

theorem ivOf_sub_contig (sq : Seq) (t n o1 o2 : Nat) :
    ((sq.ivOf t n).sub o1 o2).contig = sq.name ∧ ((sq.ivOf t n).sub o1 o2).strand = sq.strand := by
  obtain ⟨nm, sz, st, a, b⟩ := sq
  cases st <;> exact ⟨rfl, rfl⟩

/-- the `k`-th base of the sub-range `[o1, o2)` of `ivOf t n` is the local base `t + (o1 + k)` -/
theorem ivOf_sub_base (sq : Seq) (t n o1 o2 k : Nat) :
    ((sq.ivOf t n).sub o1 o2).base k = ⟨sq.name, sq.strand, sq.fwd (t + (o1 + k))⟩ := by
  obtain ⟨nm, sz, st, a, b⟩ := sq
  cases st <;> simp only [Seq.ivOf, Interval.sub, Interval.base, Seq.fwd, Base.mk.injEq, true_and] at * <;> omega

/-- the offsets `restrict` computes for an interval overlapping `ivOf t n`, and which local bases
    they select -/
theorem ivOf_offsets (sq : Seq) (t n : Nat) (iv : Interval) (h : t + n ≤ sq.size) (hiv : iv.lo ≤ iv.hi)
    (hlo : (sq.ivOf t n).lo < iv.hi) (hhi : (sq.ivOf t n).hi > iv.lo) :
    min ((sq.ivOf t n).offOf (max (sq.ivOf t n).lo iv.lo)) ((sq.ivOf t n).offOf (min (sq.ivOf t n).hi iv.hi)) ≤
      max ((sq.ivOf t n).offOf (max (sq.ivOf t n).lo iv.lo)) ((sq.ivOf t n).offOf (min (sq.ivOf t n).hi iv.hi)) ∧
    max ((sq.ivOf t n).offOf (max (sq.ivOf t n).lo iv.lo)) ((sq.ivOf t n).offOf (min (sq.ivOf t n).hi iv.hi)) ≤ n ∧
    ∀ k, k < n → ((iv.lo ≤ sq.fwd (t + k) ∧ sq.fwd (t + k) < iv.hi) ↔
      (min ((sq.ivOf t n).offOf (max (sq.ivOf t n).lo iv.lo)) ((sq.ivOf t n).offOf (min (sq.ivOf t n).hi iv.hi)) ≤ k ∧
       k < max ((sq.ivOf t n).offOf (max (sq.ivOf t n).lo iv.lo)) ((sq.ivOf t n).offOf (min (sq.ivOf t n).hi iv.hi)))) := by
  obtain ⟨nm, sz, st, a, b⟩ := sq
  cases st <;> simp only [Seq.ivOf, Interval.offOf, Seq.fwd] at * <;>
    refine ⟨by omega, by omega, fun k hk => ⟨fun h => ⟨by omega, by omega⟩, fun h => ⟨by omega, by omega⟩⟩⟩

/-- an interval that does not overlap `ivOf t n` contains none of its bases -/
theorem ivOf_no_overlap (sq : Seq) (t n : Nat) (iv : Interval) (h : t + n ≤ sq.size)
    (hno : ¬ ((sq.ivOf t n).lo < iv.hi ∧ (sq.ivOf t n).hi > iv.lo)) :
    ∀ k, k < n → ¬ (iv.lo ≤ sq.fwd (t + k) ∧ sq.fwd (t + k) < iv.hi) := by
  obtain ⟨nm, sz, st, a, b⟩ := sq
  cases st <;> simp only [Seq.ivOf, Seq.fwd] at * <;> intro k hk <;> omega

/-- a non-empty interval overlapping a non-empty `ivOf t n` contains one of its bases -/
theorem ivOf_overlap_base (sq : Seq) (t n : Nat) (iv : Interval) (h : t + n ≤ sq.size) (hn : 0 < n)
    (hne : iv.lo < iv.hi) (hlo : (sq.ivOf t n).lo < iv.hi) (hhi : (sq.ivOf t n).hi > iv.lo) :
    ∃ k, k < n ∧ iv.lo ≤ sq.fwd (t + k) ∧ sq.fwd (t + k) < iv.hi := by
  obtain ⟨nm, sz, st, a, b⟩ := sq
  cases st <;> simp only [Seq.ivOf, Seq.fwd] at *
  · exact ⟨max t iv.lo - t, by omega, by omega, by omega⟩
  · exact ⟨sz - 1 - t - max (sz - (t + n)) iv.lo, by omega, by omega, by omega⟩

/-- every local block has the size of one of the records -/
theorem localBlocks_size (rs : List Rec) : ∀ t q, ∀ b ∈ localBlocks t q rs, ∃ r ∈ rs, b.2.2 = r.size := by
  induction rs with
  | nil => intro t q b hb; simp [localBlocks] at hb
  | cons r rs ih =>
    intro t q b hb
    simp only [localBlocks, List.mem_cons] at hb
    rcases hb with rfl | hb
    · exact ⟨r, List.mem_cons_self .., rfl⟩
    · obtain ⟨r', hr', e⟩ := ih _ _ b hb
      exact ⟨r', List.mem_cons_of_mem _ hr', e⟩

end CF
