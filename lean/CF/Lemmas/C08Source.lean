/-
  C08 — Truncated files and failing readers never produce a partial or shifted mapping.
  (reader-fault part and line-level truncation; see C08_trunc_partial for what is proved about
  byte-level truncation)
-/
import CF.Lemmas.Source
import CF.Spec.Lines
import CF.Spec.Grammar
import CF.Lemmas.SourceAux
namespace CF

/-- **Interrupted reads are invisible**: deleting every `Interrupted` event changes no result. -/
theorem C08_interrupt (v : List UInt8 → Bool) (s : List Ev) : rawLines v (dropIntr s) = rawLines v s := by
  exact rawLines_dropIntr v (weight s) s (Nat.le_refl _)

/-- **A hard failure surfaces from the call in progress**: whatever was gathered before it in this
    call (data without a newline, interrupts), the call returns the I/O error and the reader
    continues after the failed event. -/
theorem C08_fault_read (v : List UInt8 → Bool) (pre post : List Ev)
    (hpre : ∀ e ∈ pre, e = .intr ∨ ∃ bs, e = .chunk bs ∧ LF ∉ bs) :
    readLineRaw v (pre ++ .fail :: post) = (some .io, post) := by
  exact readLineRaw_error v _ _ () (readUntil_fault pre post [] hpre)

/-- every `fail` event shows up as exactly one `io` result and vice versa -/
theorem C08_fault_count (v : List UInt8 → Bool) (s : List Ev) :
    ((rawLines v s).filter (· == .io)).length = (s.filter (· == .fail)).length := by
  exact rawLines_fault_count v (weight s) s (Nat.le_refl _)

end CF
