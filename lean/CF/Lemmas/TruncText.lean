/-
  Generic list / byte lemmas for C08 (byte-level truncation): files written as LF-terminated
  texts, cutting them at a byte offset, splitting flattened lists, numerals cut short.
-/
import CF.Lemmas.Lines
import CF.Lemmas.Split
import CF.Lemmas.Text
namespace CF

/-! ### files as LF-terminated texts -/

/-- the bytes of a list of texts, each followed by LF -/
def encLF (ts : List (List UInt8)) : List UInt8 := (ts.map (· ++ [LF])).flatten

theorem encLF_nil : encLF [] = [] := rfl

theorem encLF_cons (t : List UInt8) (ts : List (List UInt8)) : encLF (t :: ts) = t ++ LF :: encLF ts := by
  simp [encLF]

theorem encLF_append (a b : List (List UInt8)) : encLF (a ++ b) = encLF a ++ encLF b := by
  simp [encLF]

theorem encodeLines_LF_true : ∀ ts : List (List UInt8), encodeLines [LF] true ts = encLF ts := by
  intro ts
  induction ts with
  | nil => rfl
  | cons t ts ih =>
    cases ts with
    | nil => simp [encodeLines, encLF]
    | cons t' ts =>
      simp only [encodeLines]
      rw [ih, encLF_cons t]
      simp

/-- the pieces of an LF-terminated file followed by an unterminated rest -/
theorem splitLines_encLF : ∀ (ts : List (List UInt8)), (∀ t ∈ ts, LF ∉ t) → ∀ (p : List UInt8), LF ∉ p →
    splitLines (encLF ts ++ p) = ts.map (· ++ [LF]) ++ (if p = [] then [] else [p]) := by
  intro ts
  induction ts with
  | nil =>
    intro _ p hp
    by_cases h : p = []
    · simp [h, encLF_nil, splitLines_nil]
    · simp only [encLF_nil, List.nil_append, List.map_nil, h, if_false]
      exact splitLines_none p ((splitNL_none_iff p).2 hp) h
  | cons t ts ih =>
    intro hlf p hp
    have ht : LF ∉ t := hlf t (List.mem_cons_self ..)
    have hs := splitNL_at_LF t (encLF ts ++ p) ht
    have he : encLF (t :: ts) ++ p = t ++ LF :: (encLF ts ++ p) := by
      rw [encLF_cons]; simp
    rw [he, splitLines_some _ _ _ hs, ih (fun x hx => hlf x (List.mem_cons_of_mem _ hx)) p hp]
    simp

/-! ### cutting at a byte offset -/

/-- cutting an LF-terminated file at any byte offset: a whole number of lines, or a whole number
    of lines followed by a non-empty prefix of the next text (possibly all of it, without its LF) -/
theorem take_encLF {α : Type} (f : α → List UInt8) : ∀ (ls : List α) (k : Nat),
    (∃ i, (encLF (ls.map f)).take k = encLF ((ls.take i).map f)) ∨
    (∃ la l lb p, ls = la ++ l :: lb ∧ p ≠ [] ∧ p <+: f l ∧
      (encLF (ls.map f)).take k = encLF (la.map f) ++ p) := by
  intro ls
  induction ls with
  | nil => intro k; exact Or.inl ⟨0, by simp [encLF_nil]⟩
  | cons l ls ih =>
    intro k
    by_cases hk : k ≤ (f l).length
    · by_cases hk0 : k = 0
      · exact Or.inl ⟨0, by simp [hk0, encLF_nil]⟩
      · right
        refine ⟨[], l, ls, (f l).take k, rfl, ?_, List.take_prefix _ _, ?_⟩
        · intro h
          have := congrArg List.length h
          rw [List.length_take, List.length_nil] at this
          omega
        · simp only [List.map_cons, encLF_cons, List.map_nil, encLF_nil, List.nil_append]
          rw [List.take_append]
          have : k - (f l).length = 0 := by omega
          simp [this]
    · have hk' : (f l).length + 1 ≤ k := by omega
      have hsplit : (encLF ((l :: ls).map f)).take k =
          f l ++ LF :: (encLF (ls.map f)).take (k - ((f l).length + 1)) := by
        simp only [List.map_cons, encLF_cons]
        rw [List.take_append, List.take_of_length_le (by omega)]
        congr 1
        have : k - (f l).length = (k - ((f l).length + 1)) + 1 := by omega
        rw [this, List.take_succ_cons]
      rcases ih (k - ((f l).length + 1)) with ⟨i, hi⟩ | ⟨la, l', lb, p, hl, hp, hpre, hcut⟩
      · left
        refine ⟨i + 1, ?_⟩
        rw [hsplit, hi]
        simp [encLF_cons]
      · right
        refine ⟨l :: la, l', lb, p, by rw [hl]; rfl, hp, hpre, ?_⟩
        rw [hsplit, hcut]
        simp [encLF_cons]

/-! ### splitting a flattened list at an element -/

theorem flatten_split {α : Type} : ∀ (L : List (List α)) (la : List α) (l : α) (lb : List α),
    L.flatten = la ++ l :: lb →
    ∃ La A B Lb, L = La ++ (A ++ l :: B) :: Lb ∧ la = La.flatten ++ A ∧ lb = B ++ Lb.flatten := by
  intro L
  induction L with
  | nil => intro la l lb h; simp at h
  | cons X L ih =>
    intro la l lb h
    rw [List.flatten_cons] at h
    rcases List.append_eq_append_iff.1 h with ⟨a', h1, h2⟩ | ⟨c', h1, h2⟩
    · obtain ⟨La, A, B, Lb, e1, e2, e3⟩ := ih a' l lb h2
      refine ⟨X :: La, A, B, Lb, by rw [e1]; rfl, ?_, e3⟩
      rw [h1, e2]; simp
    · cases c' with
      | nil =>
        simp only [List.nil_append, List.append_nil] at h1 h2
        obtain ⟨La, A, B, Lb, e1, e2, e3⟩ := ih [] l lb (by simpa using h2.symm)
        refine ⟨X :: La, A, B, Lb, by rw [e1]; rfl, ?_, e3⟩
        rw [← h1]
        simp only [List.flatten_cons, List.append_assoc]
        rw [← e2]; simp
      | cons c cs =>
        simp only [List.cons_append, List.cons.injEq] at h2
        obtain ⟨hc, hcs⟩ := h2
        subst hc
        exact ⟨[], la, cs, L, by simp [h1], by simp, hcs⟩

/-- splitting a list that ends in a known element -/
theorem append_singleton_eq {α : Type} (e : α) : ∀ (A xs : List α) (l : α) (B : List α),
    xs ++ [e] = A ++ l :: B →
    (B = [] ∧ xs = A ∧ l = e) ∨ ∃ B', B = B' ++ [e] ∧ xs = A ++ l :: B' := by
  intro A
  induction A with
  | nil =>
    intro xs l B h
    cases xs with
    | nil =>
      simp only [List.nil_append, List.cons.injEq] at h
      exact Or.inl ⟨h.2.symm, rfl, h.1.symm⟩
    | cons x xs =>
      simp only [List.cons_append, List.nil_append, List.cons.injEq] at h
      exact Or.inr ⟨xs, h.2.symm, by rw [h.1]; rfl⟩
  | cons a A ih =>
    intro xs l B h
    cases xs with
    | nil =>
      simp only [List.nil_append, List.cons_append, List.cons.injEq] at h
      exact absurd h.2 (by simp)
    | cons x xs =>
      simp only [List.cons_append, List.cons.injEq] at h
      rcases ih xs l B h.2 with ⟨h1, h2, h3⟩ | ⟨B', h1, h2⟩
      · exact Or.inl ⟨h1, by rw [h.1, h2], h3⟩
      · exact Or.inr ⟨B', h1, by rw [h.1, h2]; rfl⟩

/-! ### prefixes -/

/-- a prefix that does not contain the separator stays inside the first field -/
theorem prefix_of_append_sep {α : Type} (sep : α) : ∀ (a p b : List α), p <+: a ++ sep :: b → sep ∉ p → p <+: a := by
  intro a
  induction a with
  | nil =>
    intro p b h hs
    cases p with
    | nil => exact List.nil_prefix
    | cons x p =>
      simp only [List.nil_append] at h
      have := (List.cons_prefix_cons.1 h).1
      exact absurd (by rw [this]; exact List.mem_cons_self ..) hs
  | cons y a ih =>
    intro p b h hs
    cases p with
    | nil => exact List.nil_prefix
    | cons x p =>
      simp only [List.cons_append] at h
      obtain ⟨h1, h2⟩ := List.cons_prefix_cons.1 h
      rw [h1]
      exact List.cons_prefix_cons.2 ⟨rfl, ih p b h2 (fun hm => hs (List.mem_cons_of_mem _ hm))⟩

/-! ### numerals cut short -/

theorem valAcc_ge : ∀ (suf : List UInt8) (a n : Nat), valAcc a suf = some n → a * 10 ^ suf.length ≤ n := by
  intro suf
  induction suf with
  | nil => intro a n h; simp [valAcc] at h; simp; omega
  | cons x xs ih =>
    intro a n h
    simp only [valAcc] at h
    split at h
    · have := ih _ _ h
      simp only [List.length_cons, Nat.pow_succ]
      have h2 : a * (10 ^ xs.length * 10) = (a * 10) * 10 ^ xs.length := by ac_rfl
      rw [h2]
      exact Nat.le_trans (Nat.mul_le_mul_right _ (Nat.le_add_right _ _)) this
    · cases h

/-- a numeral that starts with a digit is read digit by digit -/
theorem parseNat_digit_head (d : UInt8) (rest : List UInt8) (hd : isDigit d = true) :
    parseNat (d :: rest) = valAcc 0 (d :: rest) := by
  have hne : d ≠ 43 := by intro e; subst e; exact absurd hd (by decide)
  unfold parseNat
  split
  · rename_i h; cases h
  · rename_i h; simp only [List.cons.injEq] at h; exact absurd h.1 hne
  · rename_i h; simp only [List.cons.injEq] at h; exact absurd h.1 hne
  · rfl

/-- a prefix of a printed positive number denotes at most that number, and less when it is cut short -/
theorem prefix_printNat_val (n : Nat) (hn : 0 < n) (p suf : List UInt8) (hp : p ≠ [])
    (he : printNat n = p ++ suf) (a : Nat) (ha : parseU64 p = some a) :
    a ≤ n ∧ (suf ≠ [] → a < n) := by
  obtain ⟨d, r, hdr, hd⟩ := printNat_head n
  cases p with
  | nil => exact absurd rfl hp
  | cons x p =>
    have hx : x = d := by
      rw [hdr] at he
      simp only [List.cons_append, List.cons.injEq] at he
      exact he.1.symm
    subst hx
    have hpn : parseNat (x :: p) = some a := by
      unfold parseU64 at ha
      split at ha
      · split at ha
        · rename_i h _; simp only [Option.some.injEq] at ha; rw [← ha]; exact h
        · cases ha
      · cases ha
    rw [parseNat_digit_head x p hd] at hpn
    have hv := valAcc_printNat 0 n
    rw [he, valAcc_append, hpn] at hv
    simp only [Option.bind_some, Nat.zero_mul, Nat.zero_add] at hv
    have hge := valAcc_ge suf a n hv
    have hpow : 1 ≤ 10 ^ suf.length := Nat.one_le_pow _ _ (by omega)
    refine ⟨?_, ?_⟩
    · calc a = a * 1 := by omega
        _ ≤ a * 10 ^ suf.length := Nat.mul_le_mul_left _ hpow
        _ ≤ n := hge
    · intro hs
      have hlen : 10 ≤ 10 ^ suf.length := by
        cases suf with
        | nil => exact absurd rfl hs
        | cons y ys =>
          simp only [List.length_cons, Nat.pow_succ]
          have : 1 ≤ 10 ^ ys.length := Nat.one_le_pow _ _ (by omega)
          omega
      have : a * 10 ≤ a * 10 ^ suf.length := Nat.mul_le_mul_left _ hlen
      omega

end CF
