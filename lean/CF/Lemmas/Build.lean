/-
  The builder as a fold over the specification-level parse of the stream, and what one section
  contributes to the machine.
-/
import CF.Props.C04
import CF.Lemmas.Machine
import CF.Spec.WF
namespace CF

/-- the builder replayed over the specification-level parse of the stream -/
def buildSpec : List SpecItem → Machine → Out BuildErr Machine
  | [], m => .ok m
  | .err e :: _, _ => .err (.sections e)
  | .sec s :: rest, m =>
    match m.addSection s with
    | .error e => .err e
    | .ok m' => buildSpec rest m'

/-- the dictionary accepts `(name, size)`: the name is new or already has that size -/
def dictOk (d : List (List UInt8 × Nat)) (name : List UInt8) (size : Nat) : Prop :=
  d.lookup name = none ∨ d.lookup name = some size

/-- a successful lookup comes from an entry of the list -/
theorem lookup_some_mem {d : List (List UInt8 × Nat)} {k : List UInt8} {v : Nat}
    (h : d.lookup k = some v) : (k, v) ∈ d := by
  obtain ⟨l1, l2, rfl, _⟩ := List.lookup_eq_some_iff.mp h
  simp

/-- `dictUpdate` succeeds exactly when the entry is compatible, and then `lookup` of that name gives
    the size while every other lookup is unchanged -/
theorem dictUpdate_ok (d : List (List UInt8 × Nat)) (name : List UInt8) (size : Nat) :
    ((∃ d', dictUpdate d name size = .ok d') ↔ dictOk d name size) ∧
    (∀ d', dictUpdate d name size = .ok d' →
      d'.lookup name = some size ∧ (∀ x, x ≠ name → d'.lookup x = d.lookup x) ∧
      (∀ x y, (x, y) ∈ d' ↔ (x, y) ∈ d ∨ (x = name ∧ y = size ∧ d.lookup name = none))) ∧
    (¬ dictOk d name size → ∃ old, dictUpdate d name size = .error (.sizeConflict name old size)) := by
  unfold dictOk dictUpdate
  cases h : d.lookup name with
  | none =>
    refine ⟨⟨fun _ => Or.inl rfl, fun _ => ⟨_, rfl⟩⟩, ?_, fun hn => absurd (Or.inl rfl) hn⟩
    intro d' hd'
    simp only [Except.ok.injEq] at hd'
    subst hd'
    refine ⟨?_, ?_, ?_⟩
    · simp [List.lookup_append, h]
    · intro x hx
      have : (x == name) = false := by simp [hx]
      simp [List.lookup_append, List.lookup_cons, this]
    · intro x y
      simp [List.mem_append]
  | some ex =>
    by_cases he : ex = size
    · subst he
      refine ⟨⟨fun _ => Or.inr rfl, fun _ => ⟨d, by simp⟩⟩, ?_, fun hn => absurd (Or.inr rfl) hn⟩
      intro d' hd'
      simp at hd'
      subst hd'
      exact ⟨h, fun _ _ => rfl, fun x y => by simp⟩
    · refine ⟨⟨fun ⟨d', hd'⟩ => by simp [he] at hd', fun hh => by simp [he] at hh⟩, ?_,
        fun _ => ⟨ex, by simp [he]⟩⟩
      intro d' hd'
      simp [he] at hd'

/-- collecting a run of pairs gives the pairs -/
theorem collectPairs_ok (xs : List (Pair × Rec)) :
    collectPairs (xs.map .ok) = .ok (xs.map (·.1)) := by
  induction xs with
  | nil => rfl
  | cons x xs ih => obtain ⟨p, r⟩ := x; simp [collectPairs, ih]

/-- collecting a run of pairs followed by an error gives that error -/
theorem collectPairs_err (xs : List (Pair × Rec)) (e : StErr) :
    collectPairs (xs.map .ok ++ [.error e]) = .error e := by
  induction xs with
  | nil => rfl
  | cons x xs ih => obtain ⟨p, r⟩ := x; simp [collectPairs, ih]

theorem expected_length (h : Hdr) (rs : List Rec) :
    ∀ t q, (expected h t q rs).length = rs.length := by
  induction rs with
  | nil => intro t q; rfl
  | cons r rs ih => intro t q; simp [expected, ih]

/-- what one section contributes: with a valid header, `addSection` succeeds exactly when both
    dictionaries accept the declared sizes and the records add up to both extents; it then appends
    the section's blocks (the prefix-sum tiling) in record order and records both sizes -/
theorem addSection_ok (m : Machine) (s : Sec) (hv : s.hdr.Valid) :
    ((∃ m', m.addSection s = .ok m') ↔
      (dictOk m.qryDict s.hdr.qry.name s.hdr.qry.size ∧ dictOk m.refDict s.hdr.ref.name s.hdr.ref.size ∧ s.sumsMatch)) ∧
    (∀ m', m.addSection s = .ok m' →
      m'.blocks = m.blocks ++ s.blocks ∧
      dictUpdate m.qryDict s.hdr.qry.name s.hdr.qry.size = .ok m'.qryDict ∧
      dictUpdate m.refDict s.hdr.ref.name s.hdr.ref.size = .ok m'.refDict) := by
  have hq := (dictUpdate_ok m.qryDict s.hdr.qry.name s.hdr.qry.size).1
  have hr := (dictUpdate_ok m.refDict s.hdr.ref.name s.hdr.ref.size).1
  have hnew := C04_new s hv
  obtain ⟨k, hk, htile⟩ := C04_tiling s hv _ hnew (s.data.length + 2) (Nat.le_refl _)
  unfold Machine.addSection
  cases hqd : dictUpdate m.qryDict s.hdr.qry.name s.hdr.qry.size with
  | error e =>
    have hn : ¬ dictOk m.qryDict s.hdr.qry.name s.hdr.qry.size := fun h => by
      obtain ⟨d', hd'⟩ := hq.mpr h; rw [hqd] at hd'; cases hd'
    simp [hn]
  | ok qd =>
    have hqok : dictOk m.qryDict s.hdr.qry.name s.hdr.qry.size := hq.mp ⟨qd, hqd⟩
    cases hrd : dictUpdate m.refDict s.hdr.ref.name s.hdr.ref.size with
    | error e =>
      have hn : ¬ dictOk m.refDict s.hdr.ref.name s.hdr.ref.size := fun h => by
        obtain ⟨d', hd'⟩ := hr.mpr h; rw [hrd] at hd'; cases hd'
      simp [hn]
    | ok rd =>
      have hrok : dictOk m.refDict s.hdr.ref.name s.hdr.ref.size := hr.mp ⟨rd, hrd⟩
      simp only [hnew]
      rcases htile with ⟨hd, hkl, hm⟩ | ⟨e, hd, hm⟩
      · rw [hd, collectPairs_ok, List.take_of_length_le (by rw [expected_length]; omega)]
        refine ⟨⟨fun _ => ⟨hqok, hrok, hm⟩, fun _ => ⟨_, rfl⟩⟩, ?_⟩
        intro m' hm'
        simp only [Except.ok.injEq] at hm'
        subst hm'
        exact ⟨rfl, rfl, rfl⟩
      · rw [hd, collectPairs_err]
        simp [hm]

/-- `expected` and `localBlocks` are the same list seen through `ivOf`, from any starting point -/
theorem expected_eq_local (h : Hdr) (rs : List Rec) : ∀ t q,
    (expected h t q rs).map (·.1) = (localBlocks t q rs).map
      (fun b => ⟨h.ref.ivOf b.1 b.2.2, h.qry.ivOf b.2.1 b.2.2⟩) := by
  induction rs with
  | nil => intro t q; rfl
  | cons r rs ih => intro t q; simp [expected, localBlocks, ih]

/-- every local block lies between the starting point and the starting point plus the totals -/
theorem localBlocks_bounds_gen (rs : List Rec) : ∀ t q, ∀ b ∈ localBlocks t q rs,
    t ≤ b.1 ∧ b.1 + b.2.2 ≤ t + sumT rs ∧ q ≤ b.2.1 ∧ b.2.1 + b.2.2 ≤ q + sumQ rs := by
  induction rs with
  | nil => intro t q b hb; simp [localBlocks] at hb
  | cons r rs ih =>
    intro t q b hb
    simp only [localBlocks, List.mem_cons] at hb
    rcases hb with rfl | hb
    · simp only [sumT, sumQ]; omega
    · have := ih _ _ b hb
      simp only [sumT, sumQ]; omega

/-- `ivOf` of a local range that ends before `stop` on a valid side -/
theorem ivOf_wf (s : Seq) (hv : s.Valid) (x n : Nat) (h : x + n ≤ s.stop) :
    (s.ivOf x n).WF ∧ (s.ivOf x n).contig = s.name ∧ (s.ivOf x n).strand = s.strand ∧
    (s.ivOf x n).count = n ∧ (s.ivOf x n).hi ≤ s.size := by
  obtain ⟨nm, sz, st, a, b⟩ := s
  obtain ⟨h1, h2, h3⟩ := hv
  cases st <;> simp [Seq.ivOf, Interval.WF, Interval.count] at * <;> omega

/-- the blocks of a valid section whose records add up are well-formed pairs on the header's
    contigs and strands, inside `[0, size]` on both sides -/
theorem blocks_wf (s : Sec) (hv : s.hdr.Valid) (hm : s.sumsMatch) :
    ∀ p ∈ s.blocks, p.WF ∧ p.ref.contig = s.hdr.ref.name ∧ p.ref.strand = s.hdr.ref.strand ∧
      p.qry.contig = s.hdr.qry.name ∧ p.qry.strand = s.hdr.qry.strand ∧
      p.ref.hi ≤ s.hdr.ref.size ∧ p.qry.hi ≤ s.hdr.qry.size := by
  intro p hp
  have he : s.blocks = _ := expected_eq_local s.hdr s.data s.hdr.ref.start s.hdr.qry.start
  rw [he, List.mem_map] at hp
  obtain ⟨b, hb, rfl⟩ := hp
  have hb' := localBlocks_bounds_gen s.data _ _ b hb
  obtain ⟨hm1, hm2⟩ := hm
  have hr := ivOf_wf s.hdr.ref hv.1 b.1 b.2.2 (by omega)
  have hq := ivOf_wf s.hdr.qry hv.2.1 b.2.1 b.2.2 (by omega)
  refine ⟨⟨hr.1, hq.1, ?_⟩, hr.2.1, hr.2.2.1, hq.2.1, hq.2.2.1, hr.2.2.2.2, hq.2.2.2.2⟩
  show (s.hdr.ref.ivOf b.1 b.2.2).count = (s.hdr.qry.ivOf b.2.1 b.2.2).count
  rw [hr.2.2.2.1, hq.2.2.2.1]

/-- blocks and local blocks are the same list seen through `ivOf` -/
theorem blocks_eq_local (s : Sec) :
    s.blocks = (localBlocks s.hdr.ref.start s.hdr.qry.start s.data).map
      (fun b => ⟨s.hdr.ref.ivOf b.1 b.2.2, s.hdr.qry.ivOf b.2.1 b.2.2⟩) := by
  exact expected_eq_local s.hdr s.data _ _

/-- every local block of a section whose records add up lies inside the header's extents -/
theorem localBlocks_bounds (s : Sec) (hm : s.sumsMatch) :
    ∀ b ∈ localBlocks s.hdr.ref.start s.hdr.qry.start s.data,
      s.hdr.ref.start ≤ b.1 ∧ b.1 + b.2.2 ≤ s.hdr.ref.stop ∧ s.hdr.qry.start ≤ b.2.1 ∧ b.2.1 + b.2.2 ≤ s.hdr.qry.stop := by
  intro b hb
  have := localBlocks_bounds_gen s.data _ _ b hb
  obtain ⟨h1, h2⟩ := hm
  omega

/-- the fold over sections only: result of `buildSpec` on an error-free parse -/
theorem buildSpec_secs (ss : List Sec) (hv : ∀ s ∈ ss, s.hdr.Valid) (m : Machine) :
    ((∃ m', buildSpec (ss.map SpecItem.sec) m = .ok m') →
        ∀ s ∈ ss, s.sumsMatch) ∧
    (∀ m', buildSpec (ss.map SpecItem.sec) m = .ok m' → m'.blocks = m.blocks ++ fileBlocks ss) ∧
    (∀ site, buildSpec (ss.map SpecItem.sec) m ≠ .panic site) := by
  induction ss generalizing m with
  | nil => simp [buildSpec, fileBlocks]
  | cons s ss ih =>
    have hvs := hv s (List.mem_cons_self ..)
    have hadd := addSection_ok m s hvs
    simp only [List.map_cons, buildSpec]
    cases ha : m.addSection s with
    | error e => simp
    | ok m1 =>
      have ih' := ih (fun s hs => hv s (List.mem_cons_of_mem _ hs)) m1
      have hsm : s.sumsMatch := (hadd.1.mp ⟨m1, ha⟩).2.2
      have hb := (hadd.2 m1 ha).1
      simp only []
      refine ⟨fun hex s' hs' => ?_, fun m' hm' => ?_, ih'.2.2⟩
      · rcases List.mem_cons.mp hs' with rfl | h
        · exact hsm
        · exact ih'.1 hex s' h
      · rw [ih'.2.1 m' hm', hb]
        simp [fileBlocks, List.append_assoc]

/-- an association list with functional lookup: every entry is what `lookup` finds for its key -/
def dictFun (d : List (List UInt8 × Nat)) : Prop := ∀ x y, (x, y) ∈ d → d.lookup x = some y

/-- `dictUpdate` keeps lookups functional -/
theorem dictUpdate_fun {d d' : List (List UInt8 × Nat)} {name : List UInt8} {size : Nat}
    (hf : dictFun d) (h : dictUpdate d name size = .ok d') : dictFun d' := by
  obtain ⟨hok, hspec, _⟩ := dictUpdate_ok d name size
  obtain ⟨h1, h2, h3⟩ := hspec d' h
  have hdo : dictOk d name size := hok.mp ⟨d', h⟩
  intro x y hxy
  by_cases hx : x = name
  · subst hx
    rw [h1]
    rcases (h3 x y).mp hxy with hmem | ⟨_, rfl, _⟩
    · have := hf x y hmem
      rcases hdo with hn | hs
      · rw [hn] at this; cases this
      · rw [hs] at this; exact this
    · rfl
  · rw [h2 x hx]
    rcases (h3 x y).mp hxy with hmem | ⟨rfl, _, _⟩
    · exact hf x y hmem
    · exact absurd rfl hx

/-- the fold over sections from any machine with functional dictionaries: the dictionaries stay
    functional and gain exactly the declared pairs -/
theorem buildSpec_dicts_gen (ss : List Sec) (hv : ∀ s ∈ ss, s.hdr.Valid) (m m' : Machine)
    (hfr : dictFun m.refDict) (hfq : dictFun m.qryDict)
    (h : buildSpec (ss.map SpecItem.sec) m = .ok m') :
    dictFun m'.refDict ∧ dictFun m'.qryDict ∧
    (∀ x y, (x, y) ∈ m'.refDict ↔
      (x, y) ∈ m.refDict ∨ ∃ s ∈ ss, s.hdr.ref.name = x ∧ s.hdr.ref.size = y) ∧
    (∀ x y, (x, y) ∈ m'.qryDict ↔
      (x, y) ∈ m.qryDict ∨ ∃ s ∈ ss, s.hdr.qry.name = x ∧ s.hdr.qry.size = y) := by
  induction ss generalizing m with
  | nil =>
    simp only [List.map_nil, buildSpec, Out.ok.injEq] at h
    subst h
    exact ⟨hfr, hfq, by simp, by simp⟩
  | cons s ss ih =>
    have hvs := hv s (List.mem_cons_self ..)
    simp only [List.map_cons, buildSpec] at h
    cases ha : m.addSection s with
    | error e => rw [ha] at h; cases h
    | ok m1 =>
      rw [ha] at h
      simp only [] at h
      obtain ⟨_, hqd, hrd⟩ := (addSection_ok m s hvs).2 m1 ha
      have hr1 := (dictUpdate_ok m.refDict s.hdr.ref.name s.hdr.ref.size).2.1 _ hrd
      have hq1 := (dictUpdate_ok m.qryDict s.hdr.qry.name s.hdr.qry.size).2.1 _ hqd
      obtain ⟨ir, iq, imr, imq⟩ := ih (fun s hs => hv s (List.mem_cons_of_mem _ hs)) m1
        (dictUpdate_fun hfr hrd) (dictUpdate_fun hfq hqd) h
      refine ⟨ir, iq, fun x y => ?_, fun x y => ?_⟩
      · rw [imr x y, hr1.2.2 x y]
        constructor
        · rintro ((hm | ⟨rfl, rfl, _⟩) | ⟨s', hs', hn⟩)
          · exact Or.inl hm
          · exact Or.inr ⟨s, List.mem_cons_self .., rfl, rfl⟩
          · exact Or.inr ⟨s', List.mem_cons_of_mem _ hs', hn⟩
        · rintro (hm | ⟨s', hs', hn, hz⟩)
          · exact Or.inl (Or.inl hm)
          · rcases List.mem_cons.mp hs' with rfl | hs''
            · subst hn; subst hz
              have hmem := lookup_some_mem hr1.1
              exact Or.inl ((hr1.2.2 _ _).mp hmem)
            · exact Or.inr ⟨s', hs'', hn, hz⟩
      · rw [imq x y, hq1.2.2 x y]
        constructor
        · rintro ((hm | ⟨rfl, rfl, _⟩) | ⟨s', hs', hn⟩)
          · exact Or.inl hm
          · exact Or.inr ⟨s, List.mem_cons_self .., rfl, rfl⟩
          · exact Or.inr ⟨s', List.mem_cons_of_mem _ hs', hn⟩
        · rintro (hm | ⟨s', hs', hn, hz⟩)
          · exact Or.inl (Or.inl hm)
          · rcases List.mem_cons.mp hs' with rfl | hs''
            · subst hn; subst hz
              have hmem := lookup_some_mem hq1.1
              exact Or.inl ((hq1.2.2 _ _).mp hmem)
            · exact Or.inr ⟨s', hs'', hn, hz⟩

/-- dictionaries after the fold, starting from the empty machine: exactly the declared
    `(name, size)` pairs of each side, and no conflict among them -/
theorem buildSpec_dicts (ss : List Sec) (hv : ∀ s ∈ ss, s.hdr.Valid) (m' : Machine)
    (h : buildSpec (ss.map SpecItem.sec) Machine.empty = .ok m') :
    noConflict ss ∧
    (∀ x y, (x, y) ∈ m'.refDict ↔ ∃ s ∈ ss, s.hdr.ref.name = x ∧ s.hdr.ref.size = y) ∧
    (∀ x y, (x, y) ∈ m'.qryDict ↔ ∃ s ∈ ss, s.hdr.qry.name = x ∧ s.hdr.qry.size = y) := by
  have hnil : dictFun [] := fun x y hxy => by cases hxy
  obtain ⟨fr, fq, mr, mq⟩ := buildSpec_dicts_gen ss hv Machine.empty m' hnil hnil h
  have mr' : ∀ x y, (x, y) ∈ m'.refDict ↔ ∃ s ∈ ss, s.hdr.ref.name = x ∧ s.hdr.ref.size = y := by
    intro x y; rw [mr x y]; simp [Machine.empty]
  have mq' : ∀ x y, (x, y) ∈ m'.qryDict ↔ ∃ s ∈ ss, s.hdr.qry.name = x ∧ s.hdr.qry.size = y := by
    intro x y; rw [mq x y]; simp [Machine.empty]
  refine ⟨⟨fun s₁ h₁ s₂ h₂ hn => ?_, fun s₁ h₁ s₂ h₂ hn => ?_⟩, mr', mq'⟩
  · have e1 := fr _ _ ((mr' _ _).mpr ⟨s₁, h₁, rfl, rfl⟩)
    have e2 := fr _ _ ((mr' _ _).mpr ⟨s₂, h₂, rfl, rfl⟩)
    rw [hn, e2] at e1
    exact (Option.some.inj e1).symm
  · have e1 := fq _ _ ((mq' _ _).mpr ⟨s₁, h₁, rfl, rfl⟩)
    have e2 := fq _ _ ((mq' _ _).mpr ⟨s₂, h₂, rfl, rfl⟩)
    rw [hn, e2] at e1
    exact (Option.some.inj e1).symm

/-- acceptance from any machine whose dictionaries agree with every section still to come -/
theorem buildSpec_accepts_gen (ss : List Sec) (hv : ∀ s ∈ ss, s.hdr.Valid)
    (hs : ∀ s ∈ ss, s.sumsMatch) (hc : noConflict ss) (m : Machine)
    (hcr : ∀ s ∈ ss, ∀ y, m.refDict.lookup s.hdr.ref.name = some y → y = s.hdr.ref.size)
    (hcq : ∀ s ∈ ss, ∀ y, m.qryDict.lookup s.hdr.qry.name = some y → y = s.hdr.qry.size) :
    ∃ m', buildSpec (ss.map SpecItem.sec) m = .ok m' := by
  induction ss generalizing m with
  | nil => exact ⟨m, rfl⟩
  | cons s ss ih =>
    have hmem := List.mem_cons_self (a := s) (l := ss)
    have hvs := hv s hmem
    have hqok : dictOk m.qryDict s.hdr.qry.name s.hdr.qry.size := by
      unfold dictOk
      cases hl : m.qryDict.lookup s.hdr.qry.name with
      | none => exact Or.inl rfl
      | some y => rw [hcq s hmem y hl]; exact Or.inr rfl
    have hrok : dictOk m.refDict s.hdr.ref.name s.hdr.ref.size := by
      unfold dictOk
      cases hl : m.refDict.lookup s.hdr.ref.name with
      | none => exact Or.inl rfl
      | some y => rw [hcr s hmem y hl]; exact Or.inr rfl
    obtain ⟨m1, ha⟩ := (addSection_ok m s hvs).1.mpr ⟨hqok, hrok, hs s hmem⟩
    obtain ⟨_, hqd, hrd⟩ := (addSection_ok m s hvs).2 m1 ha
    have hr1 := (dictUpdate_ok m.refDict s.hdr.ref.name s.hdr.ref.size).2.1 _ hrd
    have hq1 := (dictUpdate_ok m.qryDict s.hdr.qry.name s.hdr.qry.size).2.1 _ hqd
    have hc' : noConflict ss :=
      ⟨fun a ha b hb => hc.1 a (List.mem_cons_of_mem _ ha) b (List.mem_cons_of_mem _ hb),
       fun a ha b hb => hc.2 a (List.mem_cons_of_mem _ ha) b (List.mem_cons_of_mem _ hb)⟩
    obtain ⟨m', hm'⟩ := ih (fun s hs' => hv s (List.mem_cons_of_mem _ hs'))
      (fun s hs' => hs s (List.mem_cons_of_mem _ hs')) hc' m1
      (by
        intro s' hs' y hy
        by_cases hn : s'.hdr.ref.name = s.hdr.ref.name
        · rw [hn, hr1.1] at hy
          have := hc.1 s hmem s' (List.mem_cons_of_mem _ hs') hn.symm
          rw [← Option.some.inj hy, this]
        · rw [hr1.2.1 _ hn] at hy
          exact hcr s' (List.mem_cons_of_mem _ hs') y hy)
      (by
        intro s' hs' y hy
        by_cases hn : s'.hdr.qry.name = s.hdr.qry.name
        · rw [hn, hq1.1] at hy
          have := hc.2 s hmem s' (List.mem_cons_of_mem _ hs') hn.symm
          rw [← Option.some.inj hy, this]
        · rw [hq1.2.1 _ hn] at hy
          exact hcq s' (List.mem_cons_of_mem _ hs') y hy)
    refine ⟨m', ?_⟩
    simp only [List.map_cons, buildSpec, ha]
    exact hm'

/-- conversely: valid sections that add up and do not conflict are accepted -/
theorem buildSpec_accepts (ss : List Sec) (hv : ∀ s ∈ ss, s.hdr.Valid) (hs : ∀ s ∈ ss, s.sumsMatch)
    (hc : noConflict ss) : ∃ m', buildSpec (ss.map SpecItem.sec) Machine.empty = .ok m' := by
  exact buildSpec_accepts_gen ss hv hs hc Machine.empty
    (fun s _ y hy => by simp [Machine.empty] at hy)
    (fun s _ y hy => by simp [Machine.empty] at hy)

/-- `buildSpec` never panics and fails as soon as the parse contains an error item -/
theorem buildSpec_err (items : List SpecItem) (m : Machine) :
    (∀ site, buildSpec items m ≠ .panic site) ∧
    ((∃ e, SpecItem.err e ∈ items) → ∀ m', buildSpec items m ≠ .ok m') := by
  induction items generalizing m with
  | nil => simp [buildSpec]
  | cons i items ih =>
    cases i with
    | err e => simp [buildSpec]
    | sec s =>
      simp only [buildSpec]
      cases ha : m.addSection s with
      | error e => simp
      | ok m1 =>
        simp only []
        refine ⟨(ih m1).1, fun ⟨e, he⟩ => (ih m1).2 ⟨e, ?_⟩⟩
        simpa using he

end CF
