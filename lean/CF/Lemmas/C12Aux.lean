/-
  Helper lemmas for C12 at the level of the built machine.
-/
import CF.Props.Bytes
namespace CF

/-- `Raw.ofRes` ignores the byte count of a line -/
theorem Raw.ofRes_line (n m : Nat) (t : List UInt8) :
    Raw.ofRes (.line n t) = Raw.ofRes (.line m t) := rfl

/-- with an accepting UTF-8 check, the read results of a byte string are determined by the
    stripped line texts -/
theorem linesOfBytes_ofRes (v : List UInt8 → Bool) (hv : ∀ bs, v bs = true) (b : List UInt8) :
    (linesOfBytes v b).map Raw.ofRes =
      ((splitLines b).map stripEol).map (fun t => Raw.ofRes (.line 0 t)) := by
  unfold linesOfBytes
  rw [List.map_map, List.map_map]
  apply List.map_congr_left
  intro p _
  simp only [Function.comp, lineRes, hv, if_true]
  exact Raw.ofRes_line _ _ _

/-- the read results of a single chunk -/
theorem rawLines_chunk (v : List UInt8 → Bool) (bs : List UInt8) :
    rawLines v [.chunk bs] = linesOfBytes v bs := by
  have hc : chunkOnly [Ev.chunk bs] := by simp [chunkOnly]
  rw [C12_lines_spec v _ hc]
  simp [bytesOf]

/-- a run of blank lines at the head is skipped, advancing the line number -/
theorem specSecs_replicate_empty (k : Nat) : ∀ (m : Nat) (rest : List Raw),
    specSecs m (List.replicate k (Raw.line .empty) ++ rest) = specSecs (m + k) rest := by
  induction k with
  | zero => intro m rest; simp
  | succ k ih =>
    intro m rest
    rw [List.replicate_succ, List.cons_append, C12_blank_between, ih]
    congr 1
    omega

end CF
