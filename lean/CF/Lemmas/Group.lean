/-
  The builder's `HashMap<Contig, Vec<Iv>>` as the code writes it — `hm.entry(contig).or_default()
  .push(iv)` for every pair in file order, then `Lapper::new(v)` per key — and its equivalence with
  the filter formulation the model uses (`Machine.entry`).
-/
import CF.Model.Machine
namespace CF
open Lap

/-- `hm.entry(p.reference().contig()).or_default().push(p)` on an association list (first-insertion order) -/
def groupPush (g : List (List UInt8 × List Pair)) (p : Pair) : List (List UInt8 × List Pair) :=
  match g with
  | [] => [(p.ref.contig, [p])]
  | (c, ps) :: rest => if c = p.ref.contig then (c, ps ++ [p]) :: rest else (c, ps) :: groupPush rest p

/-- the map after all pairs of the file have been pushed, in file order -/
def groupFold (ps : List Pair) : List (List UInt8 × List Pair) := ps.foldl groupPush []

theorem lookup_cons_ite {β : Type} (c k : List UInt8) (v : β) (es : List (List UInt8 × β)) :
    List.lookup c ((k, v) :: es) = if c = k then some v else es.lookup c := by
  rw [List.lookup_cons]
  by_cases h : c = k
  · have hb : (c == k) = true := beq_iff_eq.mpr h
    simp only [hb, if_pos h]
  · have hb : (c == k) = false := by
      cases hb' : (c == k) with
      | false => rfl
      | true => exact absurd (beq_iff_eq.mp hb') h
    simp only [hb, if_neg h]

theorem groupPush_lookup (g : List (List UInt8 × List Pair)) (p : Pair) (c : List UInt8) :
    (groupPush g p).lookup c =
      if c = p.ref.contig then some ((g.lookup c).getD [] ++ [p]) else g.lookup c := by
  induction g with
  | nil =>
    simp only [groupPush, lookup_cons_ite, List.lookup_nil, Option.getD_none,
      List.nil_append]
  | cons hd rest ih =>
    obtain ⟨c', qs⟩ := hd
    by_cases hc : c' = p.ref.contig
    · simp only [groupPush, if_pos hc, lookup_cons_ite]
      by_cases h1 : c = c'
      · have h2 : c = p.ref.contig := h1.trans hc
        simp only [if_pos h1, if_pos h2, Option.getD_some]
      · have h2 : ¬ c = p.ref.contig := fun h => h1 (h.trans hc.symm)
        simp only [if_neg h1, if_neg h2]
    · simp only [groupPush, if_neg hc, lookup_cons_ite, ih]
      by_cases h1 : c = c'
      · have h2 : ¬ c = p.ref.contig := fun h => hc (h1.symm.trans h)
        simp only [if_pos h1, if_neg h2]
      · simp only [if_neg h1]

theorem foldl_groupPush_lookup (ps : List Pair) (g : List (List UInt8 × List Pair)) (c : List UInt8) :
    (ps.foldl groupPush g).lookup c =
      match ps.filter (fun p => decide (p.ref.contig = c)) with
      | [] => g.lookup c
      | b :: bs => some ((g.lookup c).getD [] ++ b :: bs) := by
  induction ps generalizing g with
  | nil => simp only [List.foldl_nil, List.filter_nil]
  | cons p ps ih =>
    simp only [List.foldl_cons, List.filter_cons, ih, groupPush_lookup]
    by_cases hc : p.ref.contig = c
    · have hc' : c = p.ref.contig := hc.symm
      simp only [hc, decide_true, if_true]
      cases h : ps.filter (fun p => decide (p.ref.contig = c)) with
      | nil => rfl
      | cons b bs => simp only [Option.getD_some, List.append_assoc, List.cons_append, List.nil_append]
    · have hc' : ¬ c = p.ref.contig := fun h => hc h.symm
      simp only [hc, decide_false, if_neg hc']
      rfl

theorem groupPush_keys (g : List (List UInt8 × List Pair)) (p : Pair) :
    (groupPush g p).map (·.1) =
      if p.ref.contig ∈ g.map (·.1) then g.map (·.1) else g.map (·.1) ++ [p.ref.contig] := by
  induction g with
  | nil => simp [groupPush]
  | cons hd rest ih =>
    obtain ⟨c', qs⟩ := hd
    by_cases hc : c' = p.ref.contig
    · simp [groupPush, hc]
    · have hc' : ¬ p.ref.contig = c' := fun h => hc h.symm
      simp only [groupPush, if_neg hc, List.map_cons, ih, List.mem_cons, hc', false_or]
      split <;> simp

theorem groupPush_nodup (g : List (List UInt8 × List Pair)) (p : Pair)
    (h : (g.map (·.1)).Nodup) : ((groupPush g p).map (·.1)).Nodup := by
  rw [groupPush_keys]
  split
  · exact h
  · rename_i hn
    rw [List.nodup_append]
    refine ⟨h, List.pairwise_singleton _ _, ?_⟩
    intro a ha b hb
    simp only [List.mem_singleton] at hb
    subst hb
    intro hab
    exact hn (hab ▸ ha)

theorem foldl_groupPush_nodup (ps : List Pair) (g : List (List UInt8 × List Pair))
    (h : (g.map (·.1)).Nodup) : ((ps.foldl groupPush g).map (·.1)).Nodup := by
  induction ps generalizing g with
  | nil => exact h
  | cons p ps ih => exact ih _ (groupPush_nodup g p h)

/-- every key holds exactly the pairs with that reference contig, in file order; a key is present
    exactly when such a pair exists -/
theorem group_lookup (ps : List Pair) (c : List UInt8) :
    (groupFold ps).lookup c =
      match ps.filter (fun p => decide (p.ref.contig = c)) with
      | [] => none
      | bs => some bs := by
  unfold groupFold
  rw [foldl_groupPush_lookup]
  cases h : ps.filter (fun p => decide (p.ref.contig = c)) with
  | nil => rfl
  | cons b bs => rfl

/-- keys are distinct (it is a map) -/
theorem group_keys_nodup (ps : List Pair) : ((groupFold ps).map (·.1)).Nodup := by
  exact foldl_groupPush_nodup ps [] List.nodup_nil

/-- the model's index entry is what the code builds: `Lapper::new` of the vector stored under the key -/
theorem entry_eq_group (m : Machine) (c : List UInt8) :
    m.entry c = ((groupFold m.blocks).lookup c).map (fun bs => Lapper.new (bs.map blockIv)) := by
  rw [group_lookup]
  unfold Machine.entry
  cases h : m.blocks.filter (fun p => decide (p.ref.contig = c)) with
  | nil => rfl
  | cons b bs => rfl

end CF
