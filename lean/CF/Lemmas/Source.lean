/-
  Lemmas about the byte layer: `read_until` is independent of chunking and blind to `Interrupted`.
-/
import CF.Model.Source
namespace CF

/-- all bytes of a source (failure and interrupt events carry none) -/
def bytesOf : List Ev → List UInt8
  | [] => []
  | .chunk bs :: r => bs ++ bytesOf r
  | _ :: r => bytesOf r

def chunkOnly : List Ev → Prop
  | [] => True
  | .chunk _ :: r => chunkOnly r
  | _ :: _ => False

/-- spec on a flat byte list: first line (with terminator) and the rest -/
def firstLine (bs : List UInt8) : List UInt8 × List UInt8 :=
  match splitNL bs with
  | some (pre, post) => (pre, post)
  | none => (bs, [])

theorem splitNL_append_none (a b : List UInt8) (h : splitNL a = none) :
    splitNL (a ++ b) = (splitNL b).map (fun (p : List UInt8 × List UInt8) => (a ++ p.1, p.2)) := by
  induction a with
  | nil => simp
  | cons x xs ih =>
    simp only [splitNL] at h
    split at h
    · simp at h
    · rename_i hx
      cases hs : splitNL xs with
      | none =>
        simp only [List.cons_append, splitNL, hx, ite_false, ih hs]
        cases splitNL b <;> simp
      | some p => rw [hs] at h; simp at h

theorem splitNL_append_some (a b : List UInt8) (pre post : List UInt8) (h : splitNL a = some (pre, post)) :
    splitNL (a ++ b) = some (pre, post ++ b) := by
  induction a generalizing pre post with
  | nil => simp [splitNL] at h
  | cons x xs ih =>
    simp only [splitNL] at h
    simp only [List.cons_append, splitNL]
    split at h
    · rename_i hx; simp only [hx, ite_true]; simp at h; simp [h.1.symm, h.2.symm, hx]
    · rename_i hx
      simp only [hx, ite_false]
      cases hs : splitNL xs with
      | none => rw [hs] at h; simp at h
      | some p =>
        rw [hs] at h; simp at h
        rw [ih p.1 p.2 (by rw [hs])]
        simp [h.1.symm, h.2.symm]

/-- C12 (chunking), line level: over a chunk-only source, `read_until` returns exactly the first line of
    the concatenated bytes, leaves a chunk-only source holding exactly the remaining bytes — whatever
    the chunk boundaries are (inside a number, between CR and LF, one byte at a time, …). -/
theorem readUntil_chunks : ∀ (s : List Ev) (acc : List UInt8), chunkOnly s →
    (readUntil s acc).1 = .ok (acc ++ (firstLine (bytesOf s)).1) ∧
    chunkOnly (readUntil s acc).2 ∧ bytesOf (readUntil s acc).2 = (firstLine (bytesOf s)).2 := by
  intro s
  induction s with
  | nil => intro acc _; simp [readUntil, bytesOf, firstLine, splitNL, chunkOnly]
  | cons e r ih =>
    intro acc hc
    cases e with
    | intr => simp [chunkOnly] at hc
    | fail => simp [chunkOnly] at hc
    | chunk bs =>
      simp only [chunkOnly] at hc
      simp only [readUntil, bytesOf]
      cases hs : splitNL bs with
      | some p =>
        obtain ⟨pre, post⟩ := p
        simp only [firstLine, splitNL_append_some _ _ _ _ hs]
        refine ⟨by simp, ?_, ?_⟩
        · split <;> simp [chunkOnly, hc]
        · split
          · rename_i hp; simp [hp]
          · simp [bytesOf]
      | none =>
        have := ih (acc ++ bs) hc
        simp only [firstLine, splitNL_append_none _ _ hs]
        simp only [firstLine] at this
        cases hr : splitNL (bytesOf r) with
        | none => simp [hr] at this ⊢; exact ⟨this.1, this.2.1, this.2.2⟩
        | some q => simp [hr] at this ⊢; exact ⟨this.1, this.2.1, this.2.2⟩

/-- C08 (interrupts): `Interrupted` events are invisible. -/
def dropIntr : List Ev → List Ev
  | [] => []
  | .intr :: r => dropIntr r
  | e :: r => e :: dropIntr r

theorem readUntil_dropIntr : ∀ (s : List Ev) (acc : List UInt8),
    (readUntil (dropIntr s) acc).1 = (readUntil s acc).1 ∧
    (readUntil (dropIntr s) acc).2 = dropIntr (readUntil s acc).2 := by
  intro s
  induction s with
  | nil => intro acc; simp [dropIntr, readUntil]
  | cons e r ih =>
    intro acc
    cases e with
    | intr => simpa [dropIntr, readUntil] using ih acc
    | fail => simp [dropIntr, readUntil]
    | chunk bs =>
      simp only [dropIntr, readUntil]
      cases hs : splitNL bs with
      | none => simpa using ih (acc ++ bs)
      | some p => obtain ⟨pre, post⟩ := p; simp only; split <;> simp [dropIntr]

end CF
