/-
  Lemmas about the section-iterator model: the invariant "builder present ⇔ state is reading",
  no panic, every item consumes a line, bounded drains.
-/
import CF.Model.Sections
namespace CF

def Inv (b : Option (Hdr × List Rec)) (it : SecIt) : Prop := (b.isSome ↔ it.st = .reading)

theorem go_nil_rest (b : Option (Hdr × List Rec)) (it : SecIt) : (SecIt.go b it []).2.2 = [] := by
  simp only [SecIt.go]; cases it.st <;> simp

theorem go_spec (ls : List Raw) : ∀ (b : Option (Hdr × List Rec)) (it : SecIt), Inv b it →
    (∀ s, (SecIt.go b it ls).1 ≠ .panic s) ∧ (SecIt.go b it ls).2.1.st = .between ∧
    (SecIt.go b it ls).2.2.length ≤ ls.length ∧
    ((SecIt.go b it ls).1 ≠ .done → ls ≠ [] → (SecIt.go b it ls).2.2.length < ls.length) := by
  induction ls with
  | nil =>
    intro b it _
    simp only [SecIt.go]
    cases it.st <;> simp
  | cons x rest ih =>
    intro b it hinv
    cases x with
    | io => simp [SecIt.go]
    | unparsable t => simp [SecIt.go]
    | line l =>
      simp only [Inv] at hinv
      rcases it with ⟨st, n⟩
      cases st <;> cases l <;> cases b <;> simp at hinv
      all_goals simp only [SecIt.go, getState]
      -- between/empty/none : recurse
      · have := ih none ⟨.between, n + 1⟩ (by simp [Inv])
        refine ⟨this.1, this.2.1, by have := this.2.2.1; simp; omega, ?_⟩
        intro hnd _; have h4 := this.2.2.2 hnd
        by_cases hr : rest = []
        · subst hr; simp [SecIt.go] at hnd
        · simp; have := h4 hr; omega
      -- between/header/none : recurse with builder
      · rename_i h
        have := ih (some (h, [])) ⟨.reading, n + 1⟩ (by simp [Inv])
        refine ⟨this.1, this.2.1, by have := this.2.2.1; simp; omega, ?_⟩
        intro hnd _
        by_cases hr : rest = []
        · subst hr; simp [go_nil_rest]
        · simp; have := this.2.2.2 hnd hr; omega
      -- between/data/none : error
      · simp
      -- reading/empty/some : error
      · simp
      -- reading/header/some : error
      · simp
      -- reading/data/some
      · rename_i r hb
        rcases hb with ⟨h, ds⟩
        rcases r with ⟨rc, rdt, rdq, k⟩
        cases k
        · -- terminating: yields
          simp only
          cases hds : ds ++ [(⟨rc, rdt, rdq, .term⟩ : Rec)] with
          | nil => simp at hds
          | cons d dd => simp
        · -- non-terminating: recurse
          simp only
          have := ih (some (h, ds ++ [⟨rc, rdt, rdq, .nonterm⟩])) ⟨.reading, n + 1⟩ (by simp [Inv])
          refine ⟨this.1, this.2.1, by have := this.2.2.1; simp; omega, ?_⟩
          intro hnd _
          by_cases hr : rest = []
          · subst hr; simp [go_nil_rest]
          · simp; have := this.2.2.2 hnd hr; omega

/-- C06 (sections part) + C07 (sections part): from a `between` state, any number of next() calls
    never panics, and at most `ls.length + 1` items precede `done`. -/
theorem drain_bound : ∀ (ls : List Raw) (it : SecIt) (fuel : Nat), it.st = .between → ls.length + 2 ≤ fuel →
    (∀ s, Out3.panic s ∉ SecIt.drain fuel it ls) ∧
    (SecIt.drain fuel it ls).getLast? = some .done ∧ (SecIt.drain fuel it ls).length ≤ ls.length + 2 := by
  intro ls
  induction hlen : ls.length using Nat.strongRecOn generalizing ls with
  | _ n ih =>
    intro it fuel hst hf
    cases fuel with
    | zero => omega
    | succ f =>
      have hg := go_spec ls none it (by simp [Inv, hst])
      simp only [SecIt.drain, SecIt.next]
      generalize hres : SecIt.go none it ls = res at hg
      rcases res with ⟨o, it', ls'⟩
      cases o with
      | done => simp
      | panic s => exact absurd rfl (hg.1 s)
      | item x =>
        simp only at hg ⊢
        by_cases hnil : ls = []
        · subst hnil
          -- abrupt end is impossible from `between`; from [] in between we get done
          simp [SecIt.go, hst] at hres
        · have hlt := hg.2.2.2 (by simp) hnil
          have := ih ls'.length (by omega) ls' rfl it' f hg.2.1 (by omega)
          refine ⟨?_, ?_, ?_⟩
          · intro s hs; simp at hs; exact this.1 s hs
          · rw [List.getLast?_cons]; simp [this.2.1]
          · simp; omega

end CF
