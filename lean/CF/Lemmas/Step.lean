/-
  Lemmas about the step-through model: the running interbase pointers are the coordinates of the
  prefix sums; draining yields exactly the expected tiling when the records add up.
-/
import CF.Spec.Align
import CF.Lemmas.Pair
namespace CF

theorem coordOf_move (s : Seq) (x n : Nat) (h : x + n ≤ s.bound) (hs : s.size ≤ U64_MAX) :
    (s.coordOf x).moveForward n = some (s.coordOf (x + n)) := by
  rcases s with ⟨nm, sz, st, a, b⟩
  cases st <;> simp only [Seq.bound, Seq.coordOf] at * <;> rw [moveForward_eq] <;> simp <;> omega

theorem tryNew_coordOf (s : Seq) (x n : Nat) (h : x + n ≤ s.bound) :
    Interval.tryNew (s.coordOf x) (s.coordOf (x + n)) = .ok (s.ivOf x n) := by
  rcases s with ⟨nm, sz, st, a, b⟩
  cases st <;> simp only [Seq.bound, Seq.coordOf, Seq.ivOf] at * <;>
    rw [Interval.tryNew_ok _ _ _ _ (by simp only; omega)] <;> simp <;> omega

/-- Invariant step: from local positions (t,q), with everything fitting below the bounds,
    draining yields exactly the expected pairs, then nothing iff the ends are reached. -/
theorem drain_expected (h : Hdr) (hrs : h.ref.size ≤ U64_MAX) (hqs : h.qry.size ≤ U64_MAX)
    (te qe : Nat) :
    ∀ (recs : List Rec) (t q : Nat) (fuel : Nat),
      t + sumT recs = te → q + sumQ recs = qe → te ≤ h.ref.bound → qe ≤ h.qry.bound →
      recs.length + 1 ≤ fuel →
      StepIt.drain fuel ⟨h.ref.coordOf t, h.ref.coordOf te, h.qry.coordOf q, h.qry.coordOf qe, recs, false, false⟩
        = (expected h t q recs).map .ok := by
  intro recs
  induction recs with
  | nil =>
    intro t q fuel ht hq _ _ hf
    simp only [sumT, sumQ, Nat.add_zero] at ht hq
    subst ht hq
    cases fuel with
    | zero => simp at hf
    | succ f => simp [StepIt.drain, StepIt.next, StepIt.step, expected]
  | cons r rs ih =>
    intro t q fuel ht hq hbt hbq hf
    cases fuel with
    | zero => simp at hf
    | succ f =>
      simp only [sumT, sumQ] at ht hq
      have e1 : (h.ref.coordOf t).moveForward r.size = some (h.ref.coordOf (t + r.size)) :=
        coordOf_move _ _ _ (by omega) hrs
      have e2 : (h.qry.coordOf q).moveForward r.size = some (h.qry.coordOf (q + r.size)) :=
        coordOf_move _ _ _ (by omega) hqs
      have e3 : optMove (h.qry.coordOf (q + r.size)) r.dq
          = some (h.qry.coordOf (q + r.size + r.dq.getD 0)) := by
        cases hd : r.dq with
        | none => simp [optMove]
        | some d => simp only [Option.getD, optMove]; exact coordOf_move _ _ _ (by simp [hd] at hq; omega) hqs
      have e4 : optMove (h.ref.coordOf (t + r.size)) r.dt
          = some (h.ref.coordOf (t + r.size + r.dt.getD 0)) := by
        cases hd : r.dt with
        | none => simp [optMove]
        | some d => simp only [Option.getD, optMove]; exact coordOf_move _ _ _ (by simp [hd] at ht; omega) hrs
      have e5 := tryNew_coordOf h.ref t r.size (by omega)
      have e6 := tryNew_coordOf h.qry q r.size (by omega)
      have e7 : Pair.tryNew (h.ref.ivOf t r.size) (h.qry.ivOf q r.size) = .ok ⟨h.ref.ivOf t r.size, h.qry.ivOf q r.size⟩ := by
        apply Pair.tryNew_ok
        rcases h with ⟨sc, ⟨n1, s1, st1, a1, b1⟩, ⟨n2, s2, st2, a2, b2⟩, id⟩
        cases st1 <;> cases st2 <;> simp only [Interval.count, Seq.ivOf, Seq.bound] at * <;> omega
      simp only [StepIt.drain, StepIt.next, StepIt.step, Bool.false_eq_true, ite_false, e1, e2, e3, e4, e5, e6, e7, expected, List.map_cons]
      congr 1
      exact ih (t + r.size + r.dt.getD 0) (q + r.size + r.dq.getD 0) f (by omega) (by omega) hbt hbq (by simp at hf; omega)

end CF
