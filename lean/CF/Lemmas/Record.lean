/-
  Inversion / introduction lemmas for the record parsers, and the printed forms as `joinWith`.
-/
import CF.Lemmas.Split
import CF.Model.Record
namespace CF

/-! ### strands -/

theorem Strand.parse_print (s : Strand) : Strand.parse s.print = some s := by
  cases s <;> rfl

theorem Strand.print_of_parse {f : List UInt8} {s : Strand} (h : Strand.parse f = some s) :
    s.print = f := by
  unfold Strand.parse at h
  split at h
  · simp at h; subst h; rfl
  · simp at h; subst h; rfl
  · simp at h

theorem Strand.SP_not_mem_print (s : Strand) : SP ∉ s.print := by
  cases s <;> decide

/-! ### sequences -/

theorem Seq.ofParts_inv {name size strand start stop : List UInt8} {s : Seq}
    (h : Seq.ofParts name size strand start stop = .ok s) :
    s.name = name ∧ parseU64 size = some s.size ∧ Strand.parse strand = some s.strand ∧
    parseU64 start = some s.start ∧ parseU64 stop = some s.stop ∧ s.start ≤ s.stop := by
  unfold Seq.ofParts at h
  split at h
  · simp at h
  · split at h
    · simp at h
    · split at h
      · simp at h
      · split at h
        · simp at h
        · split at h
          · simp at h
          · rename_i _ _ hsz _ _ hst _ _ ha _ _ hb hab
            simp only [Except.ok.injEq] at h
            subst h
            exact ⟨rfl, hsz, hst, ha, hb, by simp at hab; omega⟩

theorem Seq.ofParts_intro {name size strand start stop : List UInt8} {s : Seq}
    (h1 : parseU64 size = some s.size) (h2 : Strand.parse strand = some s.strand)
    (h3 : parseU64 start = some s.start) (h4 : parseU64 stop = some s.stop)
    (h5 : s.start ≤ s.stop) (h0 : s.name = name) :
    Seq.ofParts name size strand start stop = .ok s := by
  unfold Seq.ofParts
  rw [h1, h2, h3, h4]
  simp only
  rw [if_neg (by omega)]
  cases s; simp at h0; subst h0; rfl

/-! ### headers -/

theorem Hdr.parse_inv {t : List UInt8} {h : Hdr} (hp : Hdr.parse t = .ok h) :
    ∃ p1 p2 p3 p4 p5 p6 p7 p8 p9 p10 p11 p12,
      splitOn SP t = [CHAIN, p1, p2, p3, p4, p5, p6, p7, p8, p9, p10, p11, p12] ∧
      parseU64 p1 = some h.score ∧
      Seq.ofParts p2 p3 p4 p5 p6 = .ok h.ref ∧
      Seq.ofParts p7 p8 p9 p10 p11 = .ok h.qry ∧
      parseU64 p12 = some h.id ∧
      h.ref.stop ≤ h.ref.size ∧ h.qry.stop ≤ h.qry.size := by
  unfold Hdr.parse at hp
  split at hp
  · split at hp
    · simp at hp
    · split at hp
      · simp at hp
      · split at hp
        · simp at hp
        · split at hp
          · simp at hp
          · split at hp
            · simp at hp
            · split at hp
              · simp at hp
              · split at hp
                · simp at hp
                · rename_i _ p0 p1 p2 p3 p4 p5 p6 p7 p8 p9 p10 p11 p12 hs h0 _ _ hsc _ _ hr _ _ hq
                    _ _ hid h1 h2
                  simp only [Except.ok.injEq] at hp
                  subst hp
                  have h0' : p0 = CHAIN := by simpa using h0
                  subst h0'
                  exact ⟨p1, p2, p3, p4, p5, p6, p7, p8, p9, p10, p11, p12, hs, hsc, hr, hq, hid,
                    by simp only; omega, by simp only; omega⟩
  · simp at hp

theorem Hdr.parse_intro {t : List UInt8} {h : Hdr}
    {p1 p2 p3 p4 p5 p6 p7 p8 p9 p10 p11 p12 : List UInt8}
    (hs : splitOn SP t = [CHAIN, p1, p2, p3, p4, p5, p6, p7, p8, p9, p10, p11, p12])
    (hsc : parseU64 p1 = some h.score)
    (hr : Seq.ofParts p2 p3 p4 p5 p6 = .ok h.ref)
    (hq : Seq.ofParts p7 p8 p9 p10 p11 = .ok h.qry)
    (hid : parseU64 p12 = some h.id)
    (h1 : h.ref.stop ≤ h.ref.size) (h2 : h.qry.stop ≤ h.qry.size) :
    Hdr.parse t = .ok h := by
  unfold Hdr.parse
  rw [hs]
  simp only [ne_eq, not_true_eq_false, if_false, hsc, hr, hq, hid]
  rw [if_neg (by omega), if_neg (by omega)]

theorem Hdr.print_eq_joinWith (h : Hdr) :
    h.print = joinWith SP [CHAIN, printNat h.score,
      h.ref.name, printNat h.ref.size, h.ref.strand.print, printNat h.ref.start, printNat h.ref.stop,
      h.qry.name, printNat h.qry.size, h.qry.strand.print, printNat h.qry.start, printNat h.qry.stop,
      printNat h.id] := by
  simp [Hdr.print, Seq.print, joinWith, List.append_assoc]

theorem Hdr.splitOn_print (h : Hdr) (hn : SP ∉ h.ref.name ∧ SP ∉ h.qry.name) :
    splitOn SP h.print = [CHAIN, printNat h.score,
      h.ref.name, printNat h.ref.size, h.ref.strand.print, printNat h.ref.start, printNat h.ref.stop,
      h.qry.name, printNat h.qry.size, h.qry.strand.print, printNat h.qry.start, printNat h.qry.stop,
      printNat h.id] := by
  rw [Hdr.print_eq_joinWith]
  apply splitOn_joinWith
  · simp
  · intro f hf
    simp only [List.mem_cons, List.not_mem_nil, or_false] at hf
    rcases hf with h|h|h|h|h|h|h|h|h|h|h|h|h <;> subst h
    · exact SP_not_mem_CHAIN
    · exact SP_not_mem_printNat _
    · exact hn.1
    · exact SP_not_mem_printNat _
    · exact Strand.SP_not_mem_print _
    · exact SP_not_mem_printNat _
    · exact SP_not_mem_printNat _
    · exact hn.2
    · exact SP_not_mem_printNat _
    · exact Strand.SP_not_mem_print _
    · exact SP_not_mem_printNat _
    · exact SP_not_mem_printNat _
    · exact SP_not_mem_printNat _

theorem isPrefix_append (p s : List UInt8) : isPrefix p (p ++ s) = true := by
  induction p with
  | nil => cases s <;> rfl
  | cons x xs ih => simp [isPrefix, ih]

theorem isPrefix_CHAIN_print (h : Hdr) : isPrefix CHAIN h.print = true := by
  unfold Hdr.print
  exact isPrefix_append _ _

theorem Hdr.print_ne_nil (h : Hdr) : h.print ≠ [] := by
  unfold Hdr.print CHAIN
  simp

/-! ### data records -/

theorem Rec.tryNew_inv {size : Nat} {dt dq : Option Nat} {kind : Kind} {r : Rec}
    (h : Rec.tryNew size dt dq kind = .ok r) :
    r = ⟨size, dt, dq, kind⟩ ∧
      ((kind = .nonterm ∧ dt.isSome ∧ dq.isSome) ∨ (kind = .term ∧ dt.isNone ∧ dq.isNone)) := by
  unfold Rec.tryNew at h
  cases kind <;> cases dt <;> cases dq <;> simp at h <;> simp [h]

theorem Rec.parse_inv {t : List UInt8} {r : Rec} (hp : Rec.parse t = .ok r) :
    (∃ p0, splitOn TAB t = [p0] ∧ parseU64 p0 = some r.size ∧ r.dt = none ∧ r.dq = none ∧
        r.kind = .term) ∨
    (∃ p0 p1 p2 dt dq, splitOn TAB t = [p0, p1, p2] ∧ parseU64 p0 = some r.size ∧
        parseU64 p1 = some dt ∧ parseU64 p2 = some dq ∧ r.dt = some dt ∧ r.dq = some dq ∧
        r.kind = .nonterm) := by
  unfold Rec.parse at hp
  split at hp
  · split at hp
    · simp at hp
    · rename_i _ p0 hs _ sz hsz
      have := (Rec.tryNew_inv hp).1
      subst this
      exact Or.inl ⟨p0, hs, hsz, rfl, rfl, rfl⟩
  · split at hp
    · simp at hp
    · split at hp
      · simp at hp
      · split at hp
        · simp at hp
        · rename_i _ p0 p1 p2 hs _ sz hsz _ dt hdt _ dq hdq
          have := (Rec.tryNew_inv hp).1
          subst this
          exact Or.inr ⟨p0, p1, p2, dt, dq, hs, hsz, hdt, hdq, rfl, rfl, rfl⟩
  · simp at hp

/-! ### round trips -/

theorem Hdr.parse_print (h : Hdr) (hn : SP ∉ h.ref.name ∧ SP ∉ h.qry.name)
    (hsc : h.score ≤ U64_MAX) (hid : h.id ≤ U64_MAX)
    (hr : h.ref.start ≤ h.ref.stop ∧ h.ref.stop ≤ h.ref.size ∧ h.ref.size ≤ U64_MAX)
    (hq : h.qry.start ≤ h.qry.stop ∧ h.qry.stop ≤ h.qry.size ∧ h.qry.size ≤ U64_MAX) :
    Hdr.parse h.print = .ok h := by
  obtain ⟨r1, r2, r3⟩ := hr
  obtain ⟨q1, q2, q3⟩ := hq
  exact Hdr.parse_intro (Hdr.splitOn_print h hn) (parseU64_printNat _ hsc)
    (Seq.ofParts_intro (parseU64_printNat _ r3) (Strand.parse_print _)
      (parseU64_printNat _ (by omega)) (parseU64_printNat _ (by omega)) r1 rfl)
    (Seq.ofParts_intro (parseU64_printNat _ q3) (Strand.parse_print _)
      (parseU64_printNat _ (by omega)) (parseU64_printNat _ (by omega)) q1 rfl)
    (parseU64_printNat _ hid) r2 q2

theorem Rec.parse_print_term (size : Nat) (h : size ≤ U64_MAX) :
    Rec.parse (printNat size) = .ok ⟨size, none, none, .term⟩ := by
  unfold Rec.parse
  rw [splitOn_of_not_mem _ _ (TAB_not_mem_printNat size)]
  simp only [parseU64_printNat _ h]
  rfl

theorem Rec.splitOn_print_nonterm (size dt dq : Nat) :
    splitOn TAB (printNat size ++ TAB :: printNat dt ++ TAB :: printNat dq) =
      [printNat size, printNat dt, printNat dq] := by
  have : printNat size ++ TAB :: printNat dt ++ TAB :: printNat dq =
      joinWith TAB [printNat size, printNat dt, printNat dq] := by
    simp [joinWith, List.append_assoc]
  rw [this]
  apply splitOn_joinWith
  · simp
  · intro f hf
    simp only [List.mem_cons, List.not_mem_nil, or_false] at hf
    rcases hf with h|h|h <;> subst h <;> exact TAB_not_mem_printNat _

theorem Rec.parse_print_nonterm (size dt dq : Nat) (h : size ≤ U64_MAX) (h1 : dt ≤ U64_MAX)
    (h2 : dq ≤ U64_MAX) :
    Rec.parse (printNat size ++ TAB :: printNat dt ++ TAB :: printNat dq) =
      .ok ⟨size, some dt, some dq, .nonterm⟩ := by
  unfold Rec.parse
  rw [Rec.splitOn_print_nonterm]
  simp only [parseU64_printNat _ h, parseU64_printNat _ h1, parseU64_printNat _ h2]
  rfl

/-! ### lines -/

theorem isPrefix_CHAIN_digit (d : UInt8) (rest : List UInt8) (hd : isDigit d = true) :
    isPrefix CHAIN (d :: rest) = false := by
  have : (99 : UInt8) ≠ d := by intro e; subst e; exact absurd hd (by decide)
  simp [CHAIN, isPrefix, this]

theorem Line.parse_header {t : List UInt8} {h : Hdr} (h1 : isPrefix CHAIN t = true)
    (h2 : Hdr.parse t = .ok h) : Line.parse t = .ok (.header h) := by
  have hne : t ≠ [] := by
    intro e; subst e; revert h1; decide
  unfold Line.parse
  rw [if_neg hne, if_pos h1, h2]

theorem Line.parse_data {d : UInt8} {rest : List UInt8} {r : Rec} (hd : isDigit d = true)
    (h2 : Rec.parse (d :: rest) = .ok r) : Line.parse (d :: rest) = .ok (.data r) := by
  unfold Line.parse
  rw [if_neg (by simp), isPrefix_CHAIN_digit d rest hd, h2]
  simp

theorem Line.parse_inv {t : List UInt8} {l : Line} (hp : Line.parse t = .ok l) :
    (t = [] ∧ l = .empty) ∨ (∃ h, l = .header h ∧ Hdr.parse t = .ok h) ∨
      (∃ r, l = .data r ∧ Rec.parse t = .ok r) := by
  unfold Line.parse at hp
  split at hp
  · rename_i h
    simp only [Except.ok.injEq] at hp
    exact Or.inl ⟨h, hp.symm⟩
  · split at hp
    · cases hh : Hdr.parse t with
      | error e => rw [hh] at hp; simp at hp
      | ok h =>
        rw [hh] at hp
        simp only [Except.ok.injEq] at hp
        exact Or.inr (Or.inl ⟨h, hp.symm, rfl⟩)
    · cases hr : Rec.parse t with
      | error e => rw [hr] at hp; simp at hp
      | ok r =>
        rw [hr] at hp
        simp only [Except.ok.injEq] at hp
        exact Or.inr (Or.inr ⟨r, hp.symm, rfl⟩)

/-- a printed record starts with a digit -/
theorem Rec.print_head {r : Rec} {bs : List UInt8} (h : r.print = .ok bs) :
    ∃ d rest, bs = d :: rest ∧ isDigit d = true := by
  obtain ⟨d, rest, hd, hdig⟩ := printNat_head r.size
  unfold Rec.print at h
  split at h
  · simp only [Out.ok.injEq] at h
    exact ⟨d, rest, by rw [← h, hd], hdig⟩
  · split at h
    · cases h
    · split at h
      · cases h
      · simp only [Out.ok.injEq] at h
        exact ⟨d, _, by rw [← h, hd]; rfl, hdig⟩

end CF
