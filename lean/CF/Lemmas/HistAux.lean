/-
  Locality ("no look-ahead") lemmas for reader histories: whenever an operation leaves a
  NON-EMPTY remainder, it has consumed a prefix `pre` of the input, and on `pre ++ other` it makes
  the same observation and leaves `other`, for every `other` (empty or not).
-/
import CF.Lemmas.OpsAux
namespace CF

/-- a reading function is *local* when, each time it leaves a non-empty remainder, its result is
    determined by the consumed prefix alone -/
def Local {α β : Type} (f : List α → β × List α) : Prop :=
  ∀ rs, (f rs).2 ≠ [] →
    ∃ pre, rs = pre ++ (f rs).2 ∧ ∀ other, f (pre ++ other) = ((f rs).1, other)

/-! ### the section iterator -/

/-- one step of the `loop` in `go`: the line is either the last one looked at (the call returns
    with the untouched tail) or the loop continues on the tail with a new builder and state -/
theorem go_cons_shape (b : Option (Hdr × List Rec)) (it : SecIt) (x : Raw) :
    (∃ o it', ∀ tail, SecIt.go b it (x :: tail) = (o, it', tail)) ∨
    (∃ b' it', ∀ tail, SecIt.go b it (x :: tail) = SecIt.go b' it' tail) := by
  cases x with
  | io => exact Or.inl ⟨_, _, fun tail => by simp only [SecIt.go]; rfl⟩
  | unparsable t => exact Or.inl ⟨_, _, fun tail => by simp only [SecIt.go]; rfl⟩
  | line l =>
    rcases it with ⟨st, n⟩
    rcases b with _ | ⟨h, ds⟩ <;> cases st <;> cases l
    case some.between.empty =>
      cases ds with
      | nil => exact Or.inl ⟨_, _, fun tail => by simp only [SecIt.go, getState]; rfl⟩
      | cons d dd => exact Or.inl ⟨_, _, fun tail => by simp only [SecIt.go, getState]; rfl⟩
    case some.reading.data r =>
      rcases r with ⟨rc, rdt, rdq, k⟩
      cases k
      · cases hds : ds ++ [(⟨rc, rdt, rdq, .term⟩ : Rec)] with
        | nil => simp at hds
        | cons d dd =>
          exact Or.inl ⟨_, _, fun tail => by simp only [SecIt.go, getState, hds]; rfl⟩
      · exact Or.inr ⟨_, _, fun tail => by simp only [SecIt.go, getState]; rfl⟩
    case none.reading.data r =>
      rcases r with ⟨rc, rdt, rdq, k⟩
      cases k <;> exact Or.inl ⟨_, _, fun tail => by simp only [SecIt.go, getState]; rfl⟩
    all_goals first
      | exact Or.inl ⟨_, _, fun tail => by simp only [SecIt.go, getState]; rfl⟩
      | exact Or.inr ⟨_, _, fun tail => by simp only [SecIt.go, getState]; rfl⟩

/-- `go` never looks beyond the line at which it returns, provided it returns before the end of the
    input (a non-empty remainder); this covers sections, error items and panics alike -/
theorem go_local (ls : List Raw) : ∀ (b : Option (Hdr × List Rec)) (it : SecIt),
    (SecIt.go b it ls).2.2 ≠ [] →
    ∃ pre, ls = pre ++ (SecIt.go b it ls).2.2 ∧
      ∀ other, SecIt.go b it (pre ++ other) = ((SecIt.go b it ls).1, (SecIt.go b it ls).2.1, other) := by
  induction ls with
  | nil =>
    intro b it h
    exact absurd (go_nil_rest b it) h
  | cons x rest ih =>
    intro b it h
    rcases go_cons_shape b it x with ⟨o, it', hs⟩ | ⟨b', it', hs⟩
    · refine ⟨[x], ?_, ?_⟩
      · rw [hs rest]; rfl
      · intro other
        rw [hs rest]
        exact hs other
    · rw [hs rest] at h ⊢
      obtain ⟨pre, e, l⟩ := ih b' it' h
      refine ⟨x :: pre, ?_, ?_⟩
      · rw [List.cons_append, ← e]
      · intro other
        rw [List.cons_append, hs (pre ++ other)]
        exact l other

/-- one `next()` on the shared cursor: if lines remain afterwards, the call was determined by the
    consumed prefix (whether it yielded a section, an error item or a panic) -/
theorem secsNext1_local (it : SecIt) (rs : List RawRes) (h : (secsNext1 it rs).2.2 ≠ []) :
    ∃ pre, rs = pre ++ (secsNext1 it rs).2.2 ∧
      ∀ other, secsNext1 it (pre ++ other) = ((secsNext1 it rs).1, (secsNext1 it rs).2.1, other) := by
  simp only [secsNext1, SecIt.next] at h ⊢
  generalize hg : SecIt.go none it (rs.map Raw.ofRes) = res at h ⊢
  obtain ⟨o, it2, rest'⟩ := res
  simp only at h ⊢
  have hne : rest' ≠ [] := by
    intro h0; subst h0; simp at h
  have hl := go_local (rs.map Raw.ofRes) none it (by rw [hg]; exact hne)
  rw [hg] at hl
  obtain ⟨pre', e, l⟩ := hl
  simp only at e l
  have hlen : rs.length = pre'.length + rest'.length := by
    have := congrArg List.length e
    simpa using this
  have hsub : rs.length - rest'.length = pre'.length := by omega
  have hT : (rs.take pre'.length).map Raw.ofRes = pre' := by
    rw [List.map_take, e]
    exact List.take_left' rfl
  have hl' : (rs.take pre'.length).length = pre'.length := by
    rw [List.length_take]; omega
  rw [hsub]
  refine ⟨rs.take pre'.length, (List.take_append_drop _ _).symm, ?_⟩
  intro other
  rw [List.map_append, hT, l]
  simp only [List.length_append, List.length_map, Prod.mk.injEq, true_and]
  rw [hl', Nat.add_sub_cancel]
  exact List.drop_left' hl'

theorem secsNext_ne (k : Nat) (it : SecIt) (rs : List RawRes) (h : (secsNext k it rs).2 ≠ []) :
    rs ≠ [] := by
  obtain ⟨j, _, e⟩ := secsNext_snd k it rs
  intro h0; subst h0; rw [e] at h; simp at h

/-- `k` calls of `next()`: if lines remain afterwards, all `k` results were determined by the
    consumed prefix -/
theorem secsNext_local : ∀ (k : Nat) (it : SecIt), Local (secsNext k it) := by
  intro k
  induction k with
  | zero =>
    intro it rs _
    exact ⟨[], rfl, fun other => rfl⟩
  | succ k ih =>
    intro it rs h
    have hstep : ∀ other x it' rs', secsNext1 it other = (x, it', rs') → (∀ s, x ≠ .panic s) →
        secsNext (k + 1) it other = (x :: (secsNext k it' rs').1, (secsNext k it' rs').2) := by
      intro other x it' rs' e hx
      cases x with
      | panic s => exact absurd rfl (hx s)
      | done => simp only [secsNext, e]
      | item y => simp only [secsNext, e]
    generalize hr : secsNext1 it rs = res
    obtain ⟨x, it', rs'⟩ := res
    have l1 := secsNext1_local it rs
    rw [hr] at l1
    simp only at l1
    by_cases hx : ∃ s, x = .panic s
    · obtain ⟨s, hx⟩ := hx
      subst hx
      have e0 : ∀ other rs'', secsNext1 it other = (.panic s, it', rs'') →
          secsNext (k + 1) it other = ([.panic s], rs'') := by
        intro other rs'' e
        simp only [secsNext, e]
      rw [e0 rs rs' hr] at h ⊢
      obtain ⟨pre, e, l⟩ := l1 h
      exact ⟨pre, e, fun other => e0 _ _ (l other)⟩
    · have hx' : ∀ s, x ≠ .panic s := fun s hs => hx ⟨s, hs⟩
      rw [hstep rs x it' rs' hr hx'] at h ⊢
      simp only at h ⊢
      obtain ⟨pre1, e1, l1⟩ := l1 (secsNext_ne k it' rs' h)
      obtain ⟨pre2, e2, l2⟩ := ih it' rs' h
      refine ⟨pre1 ++ pre2, ?_, ?_⟩
      · rw [List.append_assoc, ← e2]; exact e1
      · intro other
        rw [List.append_assoc, hstep _ x it' _ (l1 (pre2 ++ other)) hx', l2 other]

/-! ### `read_line`, `lines()` -/

theorem readLine_local : Local readLine := by
  intro rs h
  cases rs with
  | nil => exact absurd rfl h
  | cons r rest =>
    have hsnd : ∀ other, (readLine (r :: other)).2 = other := by
      intro other; rw [readLine_snd]; rfl
    have hfst : ∀ other, (readLine (r :: other)).1 = (readLine (r :: rest)).1 := by
      intro other
      cases r with
      | io => rfl
      | utf8 => rfl
      | line n t => simp only [readLine]; cases Line.parse t <;> rfl
    refine ⟨[r], by rw [hsnd]; rfl, ?_⟩
    intro other
    exact Prod.ext (hfst other) (hsnd other)

theorem linesNext_succ (k : Nat) (rs : List RawRes) :
    linesNext (k + 1) rs =
      ((match (readLine rs).1 with
        | .ok none => none
        | .ok (some l) => some (.ok l)
        | .error e => some (.error e)) :: (linesNext k (readLine rs).2).1,
       (linesNext k (readLine rs).2).2) := by
  simp only [linesNext]
  generalize readLine rs = res
  obtain ⟨x, rs'⟩ := res
  cases x with
  | error e => rfl
  | ok o => cases o <;> rfl

theorem linesNext_local : ∀ k, Local (linesNext k) := by
  intro k
  induction k with
  | zero =>
    intro rs _
    exact ⟨[], rfl, fun other => rfl⟩
  | succ k ih =>
    intro rs h
    rw [linesNext_succ] at h ⊢
    simp only at h ⊢
    have hne : (readLine rs).2 ≠ [] := by
      intro h0; rw [h0, linesNext_snd] at h; simp at h
    obtain ⟨pre1, e1, l1⟩ := readLine_local rs hne
    obtain ⟨pre2, e2, l2⟩ := ih (readLine rs).2 h
    refine ⟨pre1 ++ pre2, ?_, ?_⟩
    · rw [List.append_assoc, ← e2]; exact e1
    · intro other
      rw [List.append_assoc, linesNext_succ, l1 (pre2 ++ other)]
      simp only
      rw [l2 other]

/-! ### single operations and histories -/

/-- **per-operation no-look-ahead**: an operation that stops before the end of the input observes
    only the lines it consumed -/
theorem step_local (op : ReaderOp) : Local (Ops.step op) := by
  intro rs h
  cases op with
  | raw =>
    cases rs with
    | nil => exact absurd rfl h
    | cons r rest => exact ⟨[r], rfl, fun other => rfl⟩
  | line =>
    have hs : ∀ rs, Ops.step .line rs = (.line (readLine rs).1, (readLine rs).2) := fun _ => rfl
    rw [hs] at h ⊢
    obtain ⟨pre, e, l⟩ := readLine_local rs h
    exact ⟨pre, e, fun other => by rw [hs, l other]⟩
  | lines k =>
    have hs : ∀ rs, Ops.step (.lines k) rs = (.lines (linesNext k rs).1, (linesNext k rs).2) :=
      fun _ => rfl
    rw [hs] at h ⊢
    obtain ⟨pre, e, l⟩ := linesNext_local k rs h
    exact ⟨pre, e, fun other => by rw [hs, l other]⟩
  | secs k =>
    have hs : ∀ rs, Ops.step (.secs k) rs =
        (.secs (secsNext k SecIt.new rs).1, (secsNext k SecIt.new rs).2) := fun _ => rfl
    rw [hs] at h ⊢
    obtain ⟨pre, e, l⟩ := secsNext_local k SecIt.new rs h
    exact ⟨pre, e, fun other => by rw [hs, l other]⟩

/-- **no look-ahead for histories**: a history that stops before the end of the input has consumed
    a prefix `pre`, and makes the same observations on `pre ++ other`, leaving `other` -/
theorem run_local : ∀ ops, Local (Ops.run ops) := by
  intro ops
  induction ops with
  | nil =>
    intro rs _
    exact ⟨[], rfl, fun other => rfl⟩
  | cons op ops ih =>
    intro rs h
    rw [run_cons] at h ⊢
    simp only at h ⊢
    have hne : (Ops.step op rs).2 ≠ [] := by
      obtain ⟨j, _, e⟩ := run_suffix ops (Ops.step op rs).2
      intro h0; rw [e, h0] at h; simp at h
    obtain ⟨pre1, e1, l1⟩ := step_local op rs hne
    obtain ⟨pre2, e2, l2⟩ := ih (Ops.step op rs).2 h
    refine ⟨pre1 ++ pre2, ?_, ?_⟩
    · rw [List.append_assoc, ← e2]; exact e1
    · intro other
      rw [List.append_assoc, run_cons, l1 (pre2 ++ other)]
      simp only
      rw [l2 other]

end CF
