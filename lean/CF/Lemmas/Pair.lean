/-
  Lemmas about the coordinate layer and `ContiguousIntervalPair` (ported from the design spikes).
-/
import CF.Spec.Basic
namespace CF

theorem Interval.clamp_ok (a b : Interval) (hc : a.contig = b.contig) (hs : a.strand = b.strand)
    (h : max a.lo b.lo ≤ min a.hi b.hi) :
    a.clamp b = .ok ⟨a.contig, a.strand, max a.lo b.lo, min a.hi b.hi⟩ := by
  simp [Interval.clamp, hc, hs, h]

theorem contains_iff (i : Interval) (c : Coord) :
    i.contains c = true ↔ i.contig = c.contig ∧ i.strand = c.strand ∧ i.lo ≤ c.pos ∧ c.pos ≤ i.hi := by
  simp [Interval.contains, and_assoc]

theorem moveForward_eq (c : Coord) (k : Nat)
    (h : match c.strand with | .pos => c.pos + k ≤ U64_MAX | .neg => k ≤ c.pos) :
    c.moveForward k = some ⟨c.contig, c.strand, match c.strand with | .pos => c.pos + k | .neg => c.pos - k⟩ := by
  rcases c with ⟨cn, st, p⟩
  cases st <;> simp only [Coord.moveForward] at * <;> split <;> simp_all

theorem moveBackward_eq (c : Coord) (k : Nat)
    (h : match c.strand with | .pos => k ≤ c.pos | .neg => c.pos + k ≤ U64_MAX) :
    c.moveBackward k = some ⟨c.contig, c.strand, match c.strand with | .pos => c.pos - k | .neg => c.pos + k⟩ := by
  rcases c with ⟨cn, st, p⟩
  cases st <;> simp only [Coord.moveBackward] at * <;> split <;> simp_all

theorem coordAt_contains (i : Interval) (hw : i.WF) (k : Nat) (hk : k ≤ i.count) :
    i.contains (i.coordAt k) = true := by
  rw [contains_iff]; rcases i with ⟨cn, st, lo, hi⟩
  obtain ⟨h1, h2⟩ := hw
  simp only [Interval.count] at hk h1 h2
  cases st <;> simp [Interval.coordAt] <;> omega

theorem atOffset_eq (i : Interval) (hw : i.WF) (k : Nat) (hk : k ≤ i.count) :
    i.atOffset k = some (i.coordAt k) := by
  have hcont := coordAt_contains i hw k hk
  rcases i with ⟨cn, st, lo, hi⟩
  obtain ⟨h1, h2⟩ := hw
  simp only [Interval.count] at hk h1 h2
  unfold Interval.atOffset
  rw [moveForward_eq]
  · cases st <;> simp only [Interval.start, Interval.coordAt] at * <;> simp [hcont]
  · cases st <;> simp only [Interval.start] <;> omega

theorem lift_eq (p : Pair) (hp : p.WF) (c : Coord) (hc : p.ref.contains c = true) :
    p.lift c = some (p.qry.coordAt (p.ref.offOf c.pos)) := by
  obtain ⟨hr, hq, hcnt⟩ := hp
  have hc' := (contains_iff _ _).mp hc
  simp only [Pair.lift, Interval.offset, hc, ite_true]
  apply atOffset_eq _ hq
  rw [← hcnt]
  simp only [Interval.offOf, Interval.count]
  cases p.ref.strand <;> simp only <;> omega

theorem Interval.tryNew_ok (c : List UInt8) (st : Strand) (a b : Nat)
    (hd : match st with | .pos => a ≤ b | .neg => b ≤ a) :
    Interval.tryNew ⟨c, st, a⟩ ⟨c, st, b⟩ = .ok ⟨c, st, min a b, max a b⟩ := by
  cases st <;> simp only [Interval.tryNew] at * <;> simp <;>
    (rw [if_neg (by omega)]; simp; constructor <;> omega)

theorem Pair.tryNew_ok (r q : Interval) (h : r.count = q.count) : Pair.tryNew r q = .ok ⟨r, q⟩ := by
  simp [Pair.tryNew, h]

/-- Repaired clamp = restriction to the strand-directed offsets of the intersection. -/
theorem clamp_spec (p : Pair) (iv : Interval) (hp : p.WF) (hiv : iv.WF)
    (hc : p.ref.contig = iv.contig) (hs : p.ref.strand = iv.strand)
    (hmeet : max p.ref.lo iv.lo ≤ min p.ref.hi iv.hi) :
    p.clamp iv = .ok (p.sub (min (p.ref.offOf (max p.ref.lo iv.lo)) (p.ref.offOf (min p.ref.hi iv.hi)))
                            (max (p.ref.offOf (max p.ref.lo iv.lo)) (p.ref.offOf (min p.ref.hi iv.hi)))) := by
  have hp' := hp
  obtain ⟨⟨r1, r2⟩, ⟨q1, q2⟩, hcnt⟩ := hp
  obtain ⟨i1, i2⟩ := hiv
  unfold Pair.clamp
  rw [Interval.clamp_ok _ _ hc hs hmeet]
  simp only
  have hA1 : p.ref.lo ≤ max p.ref.lo iv.lo := Nat.le_max_left _ _
  have hB1 : min p.ref.hi iv.hi ≤ p.ref.hi := Nat.min_le_left _ _
  generalize max p.ref.lo iv.lo = A at *
  generalize min p.ref.hi iv.hi = B at *
  rcases p with ⟨⟨rcn, rst, rlo, rhi⟩, ⟨qcn, qst, qlo, qhi⟩⟩
  simp only [Interval.count] at *
  have hstart : (Interval.mk rcn rst rlo rhi).contains (Interval.mk rcn rst A B).start = true := by
    rw [contains_iff]; simp only [Interval.start]; cases rst <;> simp <;> omega
  rw [lift_eq _ hp' _ hstart]
  simp only
  by_cases hAB : A = B
  · subst hAB
    simp only [ite_true]
    cases rst <;> cases qst <;>
      simp [Interval.tryNew, Interval.coordAt, Interval.offOf, Interval.start, Pair.tryNew, Interval.count,
        Pair.sub, Interval.sub] <;> omega
  · simp only [hAB, ite_false]
    cases rst
    · -- '+' reference
      have hstop : (Interval.mk rcn .pos A B).stop.moveBackward 1 = some ⟨rcn, .pos, B - 1⟩ := by
        rw [moveBackward_eq] <;> simp [Interval.stop] ; omega
      have hcont1 : (Interval.mk rcn .pos rlo rhi).contains ⟨rcn, .pos, B - 1⟩ = true := by
        rw [contains_iff]; simp; omega
      rw [hstop]
      simp only [Option.filter, hcont1, ite_true]
      rw [lift_eq _ hp' _ hcont1]
      simp only
      rw [moveForward_eq]
      · cases qst <;>
        · simp only [Interval.coordAt, Interval.offOf, Interval.start]
          rw [Interval.tryNew_ok _ _ _ _ (by simp only; omega)]
          simp only
          rw [Pair.tryNew_ok _ _ (by simp only [Interval.count]; omega)]
          simp [Pair.sub, Interval.sub]
          omega
      · cases qst <;> simp [Interval.coordAt, Interval.offOf] <;> omega
    · -- '-' reference
      have hstop : (Interval.mk rcn .neg A B).stop.moveBackward 1 = some ⟨rcn, .neg, A + 1⟩ := by
        rw [moveBackward_eq] <;> simp [Interval.stop] ; omega
      have hcont1 : (Interval.mk rcn .neg rlo rhi).contains ⟨rcn, .neg, A + 1⟩ = true := by
        rw [contains_iff]; simp; omega
      rw [hstop]
      simp only [Option.filter, hcont1, ite_true]
      rw [lift_eq _ hp' _ hcont1]
      simp only
      rw [moveForward_eq]
      · cases qst <;>
        · simp only [Interval.coordAt, Interval.offOf, Interval.start]
          rw [Interval.tryNew_ok _ _ _ _ (by simp only; omega)]
          simp only
          rw [Pair.tryNew_ok _ _ (by simp only [Interval.count]; omega)]
          simp [Pair.sub, Interval.sub]
          omega
      · cases qst <;> simp [Interval.coordAt, Interval.offOf] <;> omega

end CF
