/-
  Lemmas for C08 (byte-level truncation of a canonical file): a cut in the middle of a line.
-/
import CF.Lemmas.Trunc
namespace CF

/-! ### the builder fails -/

theorem buildL_err_of_not_ok (ls : List Raw) (h : ∀ m, buildL ls ≠ .ok m) : ∃ e, buildL ls = .err e := by
  cases hb : buildL ls with
  | ok m => exact absurd hb (h m)
  | err e => exact ⟨e, rfl⟩
  | panic s => exact absurd hb (C03_no_panic ls s)

theorem buildL_err_of_item (ls : List Raw) (h : ∃ e, SpecItem.err e ∈ specSecs 1 ls) :
    ∃ e, buildL ls = .err e := by
  apply buildL_err_of_not_ok
  intro m hm
  rw [buildL_eq_buildSpec] at hm
  exact (buildSpec_err _ _).2 h m hm

theorem buildSpec_append_ok : ∀ (a b : List SpecItem) (m m' : Machine),
    buildSpec (a ++ b) m = .ok m' → ∃ m1, buildSpec a m = .ok m1 ∧ buildSpec b m1 = .ok m' := by
  intro a
  induction a with
  | nil => intro b m m' h; exact ⟨m, rfl, h⟩
  | cons i a ih =>
    intro b m m' h
    cases i with
    | err e => simp [buildSpec] at h
    | sec s =>
      simp only [List.cons_append, buildSpec] at h ⊢
      cases hadd : m.addSection s with
      | error e => rw [hadd] at h; cases h
      | ok m2 =>
        rw [hadd] at h
        exact ih b m2 m' h

/-- a section whose records do not add up to the declared extents is refused, whatever came before -/
theorem buildSpec_bad_sum (a : List SpecItem) (s' : Sec) (hv : s'.hdr.Valid) (hs : ¬ s'.sumsMatch)
    (m m' : Machine) : buildSpec (a ++ [.sec s']) m ≠ .ok m' := by
  intro h
  obtain ⟨m1, _, h2⟩ := buildSpec_append_ok a _ m m' h
  simp only [buildSpec] at h2
  cases hadd : m1.addSection s' with
  | error e => rw [hadd] at h2; cases h2
  | ok m2 => exact hs ((addSection_ok m1 s' hv).1.1 ⟨m2, hadd⟩).2.2

/-! ### sums -/

theorem sumT_append (a b : List Rec) : sumT (a ++ b) = sumT a + sumT b := by
  induction a with
  | nil => simp [sumT]
  | cons r a ih => simp only [List.cons_append, sumT, ih]; omega

theorem sumT_pos (l : List Rec) (h : ∃ q ∈ l, 0 < q.size) : 0 < sumT l := by
  induction l with
  | nil => obtain ⟨q, hq, _⟩ := h; cases hq
  | cons r l ih =>
    obtain ⟨q, hq, hpos⟩ := h
    simp only [sumT]
    rcases List.mem_cons.1 hq with rfl | hq
    · omega
    · have := ih ⟨q, hq, hpos⟩; omega

/-! ### where a line of the canonical file sits -/

theorem canon_decomp (ss : List Sec) (la : List Line) (l : Line) (lb : List Line)
    (h : canonLines ss = la ++ l :: lb) (hl : l ≠ .empty) :
    ∃ sa s sb, ss = sa ++ s :: sb ∧
      ((l = .header s.hdr ∧ la = canonLines sa) ∨
       (∃ pre r post, s.data = pre ++ r :: post ∧ l = .data r ∧
          la = canonLines sa ++ Line.header s.hdr :: pre.map Line.data)) := by
  rw [canonLines, List.flatMap_def] at h
  obtain ⟨La, A, B, Lb, e1, e2, e3⟩ := flatten_split _ la l lb h
  obtain ⟨sa, srest, hss, hsa, hrest⟩ := List.map_eq_append_iff.1 e1
  obtain ⟨s, sb, hsr, hs, hsb⟩ := List.map_eq_cons_iff.1 hrest
  subst hsr
  have hla : la = canonLines sa ++ A := by
    rw [e2, ← hsa, canonLines, List.flatMap_def]
  refine ⟨sa, s, sb, hss, ?_⟩
  simp only [Sec.lines, List.cons_append] at hs
  cases A with
  | nil =>
    simp only [List.nil_append, List.cons.injEq] at hs
    exact Or.inl ⟨hs.1.symm, by simpa using hla⟩
  | cons a A' =>
    simp only [List.cons_append, List.cons.injEq] at hs
    obtain ⟨ha, hs⟩ := hs
    rcases append_singleton_eq Line.empty A' _ l B hs with ⟨_, _, h3⟩ | ⟨B', hB, hd⟩
    · exact absurd h3 hl
    · obtain ⟨pre, rest, hdata, hpre, hr⟩ := List.map_eq_append_iff.1 hd
      obtain ⟨r, post, hrest', hrl, _⟩ := List.map_eq_cons_iff.1 hr
      subst hrest'
      exact Or.inr ⟨pre, r, post, hdata, hrl.symm, by rw [hla, ← ha, hpre]⟩

/-! ### a single last line -/

theorem specSecs_single_err (n : Nat) (x : Raw) (hx : x ≠ .line .empty) :
    ∃ e, SpecItem.err e ∈ specSecs n [x] := by
  cases x with
  | io => exact ⟨_, by rw [specSecs_io]; exact List.mem_cons_self ..⟩
  | unparsable t => exact ⟨_, by rw [specSecs_unparsable]; exact List.mem_cons_self ..⟩
  | line l =>
    cases l with
    | empty => exact absurd rfl hx
    | data r => exact ⟨_, by rw [specSecs_data]; exact List.mem_cons_self ..⟩
    | header h =>
      refine ⟨.abruptEnd, ?_⟩
      rw [specSecs_header_err n h [] .abruptEnd [] (by simp [specBody])]
      exact List.mem_cons_self ..

theorem specBody_last (n : Nat) (x : Raw) (hx : ∀ r', x = .line (.data r') → r'.kind ≠ .term) :
    ∃ e rest, ∀ acc, specBody n [x] acc = .error (e, rest) := by
  cases x with
  | io => exact ⟨.io, [], by intro acc; simp [specBody]⟩
  | unparsable t => exact ⟨.unparsable t, [], by intro acc; simp [specBody]⟩
  | line l =>
    cases l with
    | empty => exact ⟨.blank n, [], by intro acc; simp [specBody]⟩
    | header h => exact ⟨.headerIn h, [], by intro acc; simp [specBody]⟩
    | data r =>
      cases hk : r.kind with
      | term => exact absurd hk (hx r rfl)
      | nonterm => exact ⟨.abruptEnd, [], by intro acc; simp [specBody, hk]⟩

/-! ### a record cut short -/

theorem cut_record (r : Rec) (hv : r.Valid) (hpos : 0 < r.size) (p : List UInt8) (hne : p ≠ [])
    (hpre : p <+: printLine (.data r)) (hneq : p ≠ printLine (.data r)) (r' : Rec)
    (hp : Rec.parse p = .ok r') (hk : r'.kind = .term) :
    r'.dt = none ∧ (r'.size < r.size ∨ (r'.size ≤ r.size ∧ r.kind = .nonterm)) := by
  rcases Rec.parse_inv hp with ⟨p0, hs, hsz, hdt, _, _⟩ | ⟨_, _, _, _, _, _, _, _, _, _, _, hk'⟩
  · have hj := joinWith_splitOn TAB p
    rw [hs, joinWith_singleton] at hj
    subst hj
    have htab : TAB ∉ p0 := splitOn_no_sep TAB p0 p0 (by rw [hs]; simp)
    refine ⟨hdt, ?_⟩
    rcases Rec.print_cases r hv with ⟨_, hpr⟩ | ⟨hkr, dt, dq, hpr⟩
    · rw [printLine_data hpr] at hpre hneq
      obtain ⟨suf, hsuf⟩ := hpre
      have hsne : suf ≠ [] := by
        intro h; subst h
        exact hneq (by simpa using hsuf)
      exact Or.inl ((prefix_printNat_val r.size hpos p0 suf hne hsuf.symm r'.size hsz).2 hsne)
    · rw [printLine_data hpr] at hpre
      have he : printNat r.size ++ TAB :: printNat dt ++ TAB :: printNat dq =
          printNat r.size ++ TAB :: (printNat dt ++ TAB :: printNat dq) := by simp [List.append_assoc]
      rw [he] at hpre
      obtain ⟨suf, hsuf⟩ := prefix_of_append_sep TAB _ p0 _ hpre htab
      exact Or.inr ⟨(prefix_printNat_val r.size hpos p0 suf hne hsuf.symm r'.size hsz).1, hkr⟩
  · rw [hk] at hk'; cases hk'

theorem parsedRaw_line {p : List UInt8} {l : Line} (h : parsedRaw p = .line l) : Line.parse p = .ok l := by
  unfold parsedRaw at h
  cases hl : Line.parse p with
  | error e => rw [hl] at h; cases h
  | ok l' => rw [hl] at h; simp only [Raw.line.injEq] at h; rw [h]

theorem parsedRaw_ne_empty {p : List UInt8} (hne : p ≠ []) : parsedRaw p ≠ .line .empty := by
  intro h
  rcases Line.parse_inv (parsedRaw_line h) with ⟨h1, _⟩ | ⟨_, h1, _⟩ | ⟨_, h1, _⟩
  · exact hne h1
  · cases h1
  · cases h1

/-! ### a cut in the middle of a line -/

/-- the lines before the cut came through and the cut line is neither empty nor complete: the
    builder fails -/
theorem midline_err (ss : List Sec) (hc : CanonSecs ss) (la : List Line) (l : Line) (lb : List Line)
    (p : List UInt8) (h : canonLines ss = la ++ l :: lb) (hne : p ≠ []) (hpre : p <+: printLine l)
    (hneq : p ≠ printLine l) : ∃ e, buildL (la.map Raw.line ++ [parsedRaw p]) = .err e := by
  have hl : l ≠ .empty := by
    intro e; subst e
    rw [printLine_empty] at hpre
    exact hne (List.prefix_nil.1 hpre)
  obtain ⟨sa, s, sb, hss, hcase⟩ := canon_decomp ss la l lb h hl
  have hsmem : s ∈ ss := by rw [hss]; simp
  have hpa : Parses (canonLines sa) sa :=
    canon_parses sa (fun x hx => hc.shape x (by rw [hss]; simp [hx]))
  have hx := parsedRaw_ne_empty hne
  rcases hcase with ⟨_, hla⟩ | ⟨pre, r, post, hd, hlr, hla⟩
  · apply buildL_err_of_item
    rw [hla, specSecs_parses_append hpa]
    obtain ⟨e, he⟩ := specSecs_single_err (1 + (canonLines sa).length) _ hx
    exact ⟨e, List.mem_append_right _ he⟩
  · subst hlr
    -- the section's shape around the cut record
    obtain ⟨mid, last, hdm, hm, hlast⟩ := hc.shape s hsmem
    have hrmem : r ∈ s.data := by rw [hd]; simp
    have hlmem : last ∈ s.data := by rw [hdm]; simp
    have hshape := append_singleton_eq last pre mid r post (by rw [← hdm, hd])
    have hpre_nt : ∀ x ∈ pre, x.kind = .nonterm := by
      intro x hx'
      rcases hshape with ⟨_, h2, _⟩ | ⟨B', _, h2⟩
      · exact hm x (by rw [h2]; exact hx')
      · exact hm x (by rw [h2]; simp [hx'])
    have hpost : r.kind = .nonterm → 0 < sumT post := by
      intro hk
      rcases hshape with ⟨_, _, h3⟩ | ⟨B', h1, _⟩
      · rw [h3, hlast] at hk; cases hk
      · exact sumT_pos post ⟨last, by rw [h1]; simp, hc.sizes s hsmem last hlmem⟩
    have hraws : la.map Raw.line ++ [parsedRaw p] =
        (canonLines sa).map Raw.line ++ (Raw.line (.header s.hdr) ::
          (pre.map (fun r => Raw.line (.data r)) ++ [parsedRaw p])) := by
      rw [hla]; simp [Function.comp_def]
    rw [hraws]
    by_cases hterm : ∃ r', parsedRaw p = .line (.data r') ∧ r'.kind = .term
    · obtain ⟨r', hx', hk⟩ := hterm
      have hrp : Rec.parse p = .ok r' := by
        rcases Line.parse_inv (parsedRaw_line hx') with ⟨_, h1⟩ | ⟨_, h1, _⟩ | ⟨r'', h1, h2⟩
        · cases h1
        · cases h1
        · cases h1; exact h2
      obtain ⟨hdt, hsize⟩ := cut_record r ((hc.valid s hsmem).2 r hrmem) (hc.sizes s hsmem r hrmem) p hne hpre
        hneq r' hrp hk
      have hbad : ¬ (Sec.mk s.hdr ([] ++ pre ++ [r'])).sumsMatch := by
        intro hsm
        have h1 := hsm.1
        have h2 := (hc.sums s hsmem).1
        rw [hd] at h2
        simp only [List.nil_append, sumT_append, sumT, hdt, Option.getD_none] at h1 h2
        rcases hsize with hlt | ⟨hle, hknt⟩
        · omega
        · have := hpost hknt; omega
      apply buildL_err_of_not_ok
      intro m hm'
      rw [buildL_eq_buildSpec, hx', specSecs_parses_append hpa,
        specSecs_header_ok _ s.hdr _ _ _ (specBody_section pre hpre_nt r' hk [] _ []), specSecs_nil] at hm'
      exact buildSpec_bad_sum _ (Sec.mk s.hdr ([] ++ pre ++ [r'])) (hc.valid s hsmem).1 hbad _ _ hm'
    · obtain ⟨e, rest, ht⟩ := specBody_last (1 + (canonLines sa).length + 1 + pre.length) (parsedRaw p)
        (fun r' h1 h2 => hterm ⟨r', h1, h2⟩)
      apply buildL_err_of_item
      rw [specSecs_parses_append hpa, specSecs_partial _ s.hdr pre hpre_nt [parsedRaw p] e rest ht]
      exact ⟨e, List.mem_append_right _ (List.mem_cons_self ..)⟩

theorem take_length_succ_append {α : Type} (la : List α) (l : α) (lb : List α) :
    (la ++ l :: lb).take (la.length + 1) = la ++ [l] := by
  induction la with
  | nil => simp
  | cons a la ih => simp only [List.cons_append, List.length_cons, List.take_succ_cons, ih]

end CF
