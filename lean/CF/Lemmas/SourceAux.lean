/-
  More lemmas about the byte layer: fuel for `rawLines`, one-step unfolding, failure counting.
-/
import CF.Lemmas.Source
namespace CF

/-! ### splitNL -/

theorem splitNL_some_eq : ∀ (bs pre post : List UInt8), splitNL bs = some (pre, post) →
    bs = pre ++ post ∧ pre ≠ [] := by
  intro bs
  induction bs with
  | nil => intro pre post h; simp [splitNL] at h
  | cons b bs ih =>
    intro pre post h
    simp only [splitNL] at h
    split at h
    · simp at h; obtain ⟨h1, h2⟩ := h; subst h1 h2; simp
    · cases hs : splitNL bs with
      | none => rw [hs] at h; simp at h
      | some p =>
        obtain ⟨p1, p2⟩ := p
        rw [hs] at h; simp at h
        obtain ⟨h1, h2⟩ := h; subst h1 h2
        have := ih p1 p2 hs
        exact ⟨by rw [this.1]; simp, by simp⟩

theorem splitNL_none_iff (bs : List UInt8) : splitNL bs = none ↔ LF ∉ bs := by
  induction bs with
  | nil => simp [splitNL]
  | cons b bs ih =>
    simp only [splitNL]
    by_cases hb : b = LF
    · simp [hb]
    · simp only [hb, ite_false, List.mem_cons, not_or]
      cases hs : splitNL bs with
      | none => rw [hs] at ih; simp at ih; simp [ih]; exact fun h => hb h.symm
      | some p =>
        rw [hs] at ih; simp at ih
        simp [ih]

theorem splitNL_at_LF (t rest : List UInt8) (h : LF ∉ t) :
    splitNL (t ++ LF :: rest) = some (t ++ [LF], rest) := by
  rw [splitNL_append_none _ _ ((splitNL_none_iff t).2 h)]
  simp [splitNL]

/-! ### weight -/

theorem weight_readUntil : ∀ (s : List Ev) (acc : List UInt8),
    weight (readUntil s acc).2 ≤ weight s ∧ (s ≠ [] → weight (readUntil s acc).2 < weight s) := by
  intro s
  induction s with
  | nil => intro acc; simp [readUntil, weight]
  | cons e r ih =>
    intro acc
    cases e with
    | intr => have := (ih acc).1; simp only [readUntil, weight]; refine ⟨by omega, fun _ => by omega⟩
    | fail => simp only [readUntil, weight]; refine ⟨by omega, fun _ => by omega⟩
    | chunk bs =>
      simp only [readUntil, weight]
      cases hs : splitNL bs with
      | none => have := (ih (acc ++ bs)).1; simp only; refine ⟨by omega, fun _ => by omega⟩
      | some p =>
        obtain ⟨pre, post⟩ := p
        have h := splitNL_some_eq bs pre post hs
        have hl : post.length < bs.length := by
          have h1 := congrArg List.length h.1
          have : 0 < pre.length := List.length_pos_iff.mpr h.2
          simp at h1; omega
        simp only
        split
        · refine ⟨by omega, fun _ => by omega⟩
        · simp only [weight]; refine ⟨by omega, fun _ => by omega⟩

/-- a read that returns no byte at all has exhausted the source -/
theorem readUntil_ok_nil : ∀ (s : List Ev) (acc : List UInt8),
    (readUntil s acc).1 = .ok [] → (readUntil s acc).2 = [] ∧ acc = [] := by
  intro s
  induction s with
  | nil => intro acc h; simp [readUntil] at h ⊢; exact h
  | cons e r ih =>
    intro acc h
    cases e with
    | intr => simp only [readUntil] at h ⊢; exact ih acc h
    | fail => simp [readUntil] at h
    | chunk bs =>
      simp only [readUntil] at h ⊢
      cases hs : splitNL bs with
      | none =>
        rw [hs] at h; simp only at h ⊢
        have := ih _ h
        exact ⟨this.1, (List.append_eq_nil_iff.mp this.2).1⟩
      | some p =>
        obtain ⟨pre, post⟩ := p
        rw [hs] at h; simp only at h
        have := (splitNL_some_eq bs pre post hs).2
        simp at h; exact absurd h.2 this

/-! ### readLineRaw by cases -/

theorem readLineRaw_error (v : List UInt8 → Bool) (s s' : List Ev) (e : Unit)
    (h : readUntil s [] = (.error e, s')) : readLineRaw v s = (some .io, s') := by
  simp [readLineRaw, h]

theorem readLineRaw_nil (v : List UInt8 → Bool) (s s' : List Ev)
    (h : readUntil s [] = (.ok [], s')) : readLineRaw v s = (none, s') := by
  simp [readLineRaw, h]

theorem readLineRaw_ok (v : List UInt8 → Bool) (s s' : List Ev) (bs : List UInt8) (hne : bs ≠ [])
    (h : readUntil s [] = (.ok bs, s')) :
    readLineRaw v s = (some (if v bs then .line bs.length (stripEol bs) else .utf8), s') := by
  cases bs with
  | nil => exact absurd rfl hne
  | cons b bs => simp only [readLineRaw, h]; split <;> rfl

theorem readLineRaw_snd (v : List UInt8 → Bool) (s : List Ev) :
    (readLineRaw v s).2 = (readUntil s []).2 := by
  generalize hr : readUntil s [] = res
  obtain ⟨x, s'⟩ := res
  cases x with
  | error e => rw [readLineRaw_error v s s' e hr]
  | ok bs =>
    cases bs with
    | nil => rw [readLineRaw_nil v s s' hr]
    | cons b bs => rw [readLineRaw_ok v s s' (b :: bs) (by simp) hr]

theorem weight_readLineRaw (v : List UInt8 → Bool) (s s' : List Ev) (r : RawRes)
    (h : readLineRaw v s = (some r, s')) : weight s' < weight s := by
  have h2 : s' = (readUntil s []).2 := by rw [← readLineRaw_snd v s, h]
  rw [h2]
  apply (weight_readUntil s []).2
  intro hs; subst hs
  simp [readLineRaw, readUntil] at h

/-! ### fuel -/

theorem rawLinesF_fuel (v : List UInt8 → Bool) : ∀ (f g : Nat) (s : List Ev),
    weight s + 1 ≤ f → weight s + 1 ≤ g → rawLinesF v f s = rawLinesF v g s := by
  intro f
  induction f with
  | zero => intro g s h; omega
  | succ f ih =>
    intro g s hf hg
    cases g with
    | zero => omega
    | succ g =>
      simp only [rawLinesF]
      generalize hr : readLineRaw v s = res
      obtain ⟨o, s'⟩ := res
      cases o with
      | none => rfl
      | some r =>
        have := weight_readLineRaw v s s' r hr
        simp only
        rw [ih g s' (by omega) (by omega)]

theorem rawLines_unfold (v : List UInt8 → Bool) (s : List Ev) :
    rawLines v s = match readLineRaw v s with
      | (none, _) => []
      | (some r, s') => r :: rawLines v s' := by
  have e : rawLinesF v (weight s + 1) s = match readLineRaw v s with
      | (none, _) => []
      | (some r, s') => r :: rawLinesF v (weight s) s' := rfl
  rw [rawLines, e]
  generalize hr : readLineRaw v s = res
  obtain ⟨o, s'⟩ := res
  cases o with
  | none => rfl
  | some r =>
    have := weight_readLineRaw v s s' r hr
    show r :: rawLinesF v (weight s) s' = r :: rawLinesF v (weight s' + 1) s'
    rw [rawLinesF_fuel v (weight s) (weight s' + 1) s' (by omega) (by omega)]

theorem rawLines_none (v : List UInt8 → Bool) (s s' : List Ev) (h : readLineRaw v s = (none, s')) :
    rawLines v s = [] := by
  rw [rawLines_unfold, h]

theorem rawLines_some (v : List UInt8 → Bool) (s s' : List Ev) (r : RawRes)
    (h : readLineRaw v s = (some r, s')) : rawLines v s = r :: rawLines v s' := by
  rw [rawLines_unfold, h]

/-! ### interrupts -/

theorem readLineRaw_dropIntr (v : List UInt8 → Bool) (s : List Ev) :
    readLineRaw v (dropIntr s) = ((readLineRaw v s).1, dropIntr (readLineRaw v s).2) := by
  have h := readUntil_dropIntr s []
  generalize hr : readUntil s [] = res at h
  obtain ⟨x, s'⟩ := res
  generalize hr2 : readUntil (dropIntr s) [] = res2 at h
  obtain ⟨x2, s2⟩ := res2
  simp only at h
  obtain ⟨h1, h2⟩ := h
  subst h1 h2
  cases x2 with
  | error e => rw [readLineRaw_error v _ _ e hr, readLineRaw_error v _ _ e hr2]
  | ok bs =>
    cases bs with
    | nil => rw [readLineRaw_nil v _ _ hr, readLineRaw_nil v _ _ hr2]
    | cons b bs => rw [readLineRaw_ok v _ _ _ (by simp) hr, readLineRaw_ok v _ _ _ (by simp) hr2]

theorem rawLines_dropIntr (v : List UInt8 → Bool) : ∀ (n : Nat) (s : List Ev), weight s ≤ n →
    rawLines v (dropIntr s) = rawLines v s := by
  intro n
  induction n with
  | zero =>
    intro s h
    cases s with
    | nil => rfl
    | cons e r => cases e <;> simp [weight] at h <;> omega
  | succ n ih =>
    intro s h
    have hd := readLineRaw_dropIntr v s
    generalize hr : readLineRaw v s = res at hd
    obtain ⟨o, s'⟩ := res
    cases o with
    | none => rw [rawLines_none v _ _ hr, rawLines_none v _ _ hd]
    | some r =>
      have := weight_readLineRaw v s s' r hr
      rw [rawLines_some v _ _ _ hr, rawLines_some v _ _ _ hd, ih s' (by omega)]

/-! ### failures -/

def nFail (s : List Ev) : Nat := (s.filter (· == .fail)).length

theorem nFail_cons_fail (r : List Ev) : nFail (.fail :: r) = nFail r + 1 := by
  simp [nFail]

theorem nFail_cons_intr (r : List Ev) : nFail (.intr :: r) = nFail r := by
  simp [nFail]

theorem nFail_cons_chunk (bs : List UInt8) (r : List Ev) : nFail (.chunk bs :: r) = nFail r := by
  simp [nFail]

theorem nFail_readUntil : ∀ (s : List Ev) (acc : List UInt8),
    nFail s = (match (readUntil s acc).1 with | .error _ => 1 | .ok _ => 0) + nFail (readUntil s acc).2 := by
  intro s
  induction s with
  | nil => intro acc; simp [readUntil, nFail]
  | cons e r ih =>
    intro acc
    cases e with
    | intr => simp only [readUntil, nFail_cons_intr]; exact ih acc
    | fail => simp only [readUntil, nFail_cons_fail]; omega
    | chunk bs =>
      simp only [readUntil, nFail_cons_chunk]
      cases hs : splitNL bs with
      | none => exact ih _
      | some p =>
        obtain ⟨pre, post⟩ := p
        simp only
        split <;> simp [nFail_cons_chunk]

theorem readUntil_fault : ∀ (pre : List Ev) (post : List Ev) (acc : List UInt8),
    (∀ e ∈ pre, e = .intr ∨ ∃ bs, e = .chunk bs ∧ LF ∉ bs) →
    readUntil (pre ++ .fail :: post) acc = (.error (), post) := by
  intro pre
  induction pre with
  | nil => intro post acc _; simp [readUntil]
  | cons e r ih =>
    intro post acc h
    have hr := fun acc' => ih post acc' (fun e he => h e (List.mem_cons_of_mem _ he))
    rcases h e (List.mem_cons_self ..) with he | ⟨bs, he, hbs⟩
    · subst he; simp only [List.cons_append, readUntil]; exact hr acc
    · subst he
      simp only [List.cons_append, readUntil, (splitNL_none_iff bs).2 hbs]
      exact hr _

theorem rawLines_fault_count (v : List UInt8 → Bool) : ∀ (n : Nat) (s : List Ev), weight s ≤ n →
    ((rawLines v s).filter (· == .io)).length = nFail s := by
  intro n
  induction n with
  | zero =>
    intro s h
    cases s with
    | nil => rfl
    | cons e r => cases e <;> simp [weight] at h <;> omega
  | succ n ih =>
    intro s h
    have hc := nFail_readUntil s []
    have hw := weight_readUntil s []
    generalize hr : readUntil s [] = res at hc hw
    obtain ⟨x, s'⟩ := res
    simp only at hc hw
    by_cases hs : s = []
    · subst hs; rfl
    have hlt := hw.2 hs
    cases x with
    | error e =>
      rw [rawLines_some v _ _ _ (readLineRaw_error v s s' e hr)]
      simp only at hc
      rw [hc, List.filter_cons_of_pos (by decide), List.length_cons, ih s' (by omega)]
      omega
    | ok bs =>
      simp only at hc
      cases bs with
      | nil =>
        rw [rawLines_none v _ _ (readLineRaw_nil v s s' hr)]
        have := readUntil_ok_nil s [] (by rw [hr])
        rw [hr] at this
        simp only at this
        rw [hc, this.1]; rfl
      | cons b bs =>
        rw [rawLines_some v _ _ _ (readLineRaw_ok v s s' _ (by simp) hr)]
        rw [hc, List.filter_cons_of_neg (by split <;> simp), ih s' (by omega)]
        omega

end CF
