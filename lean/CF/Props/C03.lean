/-
  C03 — All-or-nothing validation: a machine is never built from an ill-formed chain.
  Property theorems only.
-/
import CF.Lemmas.BuildSpec
namespace CF

/-- the builder never panics, on any stream of read results -/
theorem C03_no_panic (ls : List Raw) : ∀ site, buildL ls ≠ .panic site := by
  rw [buildL_eq_buildSpec]
  exact (buildSpec_err _ _).1

/-- **All or nothing.** A machine is built exactly from the well-formed files: every line was read
    and parsed, the lines conform to the grammar (every chain structurally complete), every chain's
    block sizes and gaps add up exactly to the reference extent and to the query extent declared
    in its header, and no contig is declared with two sizes. (`hv` is what the line parser
    guarantees for every line it accepts — theorem `C14_raw`.) -/
theorem C03_iff (ls : List Raw) (hv : ∀ r ∈ ls, r.Valid) :
    (∃ m, buildL ls = .ok m) ↔ ∃ ss, WFFile ls ss := by
  have hdrs : ∀ (lines : List Line) (ss : List Sec), ls = lines.map Raw.line → Parses lines ss →
      ∀ s ∈ ss, s.hdr.Valid := by
    intro lines ss hl hp s hs
    have hmem : Raw.line (.header s.hdr) ∈ ls := by
      rw [hl]; exact List.mem_map.2 ⟨_, (parses_mem hp s hs).1, rfl⟩
    exact hv _ hmem
  constructor
  · rintro ⟨m, hm⟩
    rw [buildL_eq_buildSpec] at hm
    have hne : ¬ ∃ e, SpecItem.err e ∈ specSecs 1 ls := fun he => (buildSpec_err _ _).2 he m hm
    obtain ⟨ss, hss⟩ := items_no_err _ hne
    obtain ⟨lines, hl, hp⟩ := parses_of_specSecs ls ss 1 hss
    have hv' := hdrs lines ss hl hp
    rw [hss] at hm
    exact ⟨ss, lines, hl, hp, (buildSpec_secs ss hv' Machine.empty).1 ⟨m, hm⟩, (buildSpec_dicts ss hv' m hm).1⟩
  · rintro ⟨ss, lines, hl, hp, hs, hc⟩
    have hv' := hdrs lines ss hl hp
    obtain ⟨m, hm⟩ := buildSpec_accepts ss hv' hs hc
    refine ⟨m, ?_⟩
    rw [buildL_eq_buildSpec, hl, specSecs_of_parses hp 1]
    exact hm

/-- a file that violates this in any chain, on either side, by any amount, is refused with an
    error rather than accepted or partially loaded -/
theorem C03_refuse (ls : List Raw) (hv : ∀ r ∈ ls, r.Valid) (hn : ¬ ∃ ss, WFFile ls ss) :
    ∃ e, buildL ls = .err e := by
  cases h : buildL ls with
  | ok m => exact absurd ((C03_iff ls hv).1 ⟨m, h⟩) hn
  | err e => exact ⟨e, rfl⟩
  | panic s => exact absurd h (C03_no_panic ls s)

/-- the sections of a well-formed file are determined by its lines -/
theorem C03_unique (ls : List Raw) (ss ss' : List Sec) (h : WFFile ls ss) (h' : WFFile ls ss') : ss = ss' := by
  obtain ⟨lines, hl, hp, _, _⟩ := h
  obtain ⟨lines', hl', hp', _, _⟩ := h'
  have h1 := specSecs_of_parses hp 1
  have h2 := specSecs_of_parses hp' 1
  rw [← hl] at h1
  rw [← hl'] at h2
  exact map_sec_inj ss ss' (h1.symm.trans h2)

/-- what the accepted machine holds: all blocks of all sections in file order, and exactly the
    declared `(name, size)` pairs of each side -/
theorem C03_machine (ls : List Raw) (hv : ∀ r ∈ ls, r.Valid) (ss : List Sec) (hw : WFFile ls ss) (m : Machine)
    (hb : buildL ls = .ok m) :
    m.blocks = fileBlocks ss ∧
    (∀ x y, (x, y) ∈ m.refDict ↔ ∃ s ∈ ss, s.hdr.ref.name = x ∧ s.hdr.ref.size = y) ∧
    (∀ x y, (x, y) ∈ m.qryDict ↔ ∃ s ∈ ss, s.hdr.qry.name = x ∧ s.hdr.qry.size = y) ∧
    (∀ s ∈ ss, s.hdr.Valid ∧ s.sumsMatch) := by
  obtain ⟨lines, hl, hp, hs, _⟩ := hw
  have hv' : ∀ s ∈ ss, s.hdr.Valid := by
    intro s hs'
    have hmem : Raw.line (.header s.hdr) ∈ ls := by
      rw [hl]; exact List.mem_map.2 ⟨_, (parses_mem hp s hs').1, rfl⟩
    exact hv _ hmem
  rw [buildL_eq_buildSpec, hl, specSecs_of_parses hp 1] at hb
  have hbl := (buildSpec_secs ss hv' Machine.empty).2.1 m hb
  have hd := buildSpec_dicts ss hv' m hb
  refine ⟨?_, hd.2.1, hd.2.2, fun s h => ⟨hv' s h, hs s h⟩⟩
  rw [hbl]
  simp [Machine.empty]

/-- a failed read anywhere in the stream never yields a machine (C08, reader-fault part) -/
theorem C08_io_refused (ls : List Raw) (hio : Raw.io ∈ ls) : ∃ e, buildL ls = .err e := by
  cases h : buildL ls with
  | ok m =>
    rw [buildL_eq_buildSpec] at h
    exact absurd h ((buildSpec_err _ _).2 (specSecs_io_err ls 1 hio) m)
  | err e => exact ⟨e, rfl⟩
  | panic s => exact absurd h (C03_no_panic ls s)

/-- **Truncation at a line boundary** (C08, line level): cutting a well-formed file after any number
    of lines either fails or builds exactly the machine of a whole-chain prefix of the file; an
    incomplete chain never contributes. -/
theorem C08_trunc_lines (ls : List Raw) (hv : ∀ r ∈ ls, r.Valid) (ss : List Sec) (hw : WFFile ls ss) (k : Nat) :
    (∃ e, buildL (ls.take k) = .err e) ∨
    (∃ j m, buildL (ls.take k) = .ok m ∧ buildSpec ((ss.take j).map SpecItem.sec) Machine.empty = .ok m) := by
  obtain ⟨mfull, hfull⟩ := (C03_iff ls hv).2 ⟨ss, hw⟩
  obtain ⟨lines, hl, hp, _, _⟩ := hw
  rw [buildL_eq_buildSpec, hl, specSecs_of_parses hp 1] at hfull
  have htake : ls.take k = (lines.take k).map Raw.line := by rw [hl, List.map_take]
  rcases specSecs_take hp k 1 with ⟨j, hj⟩ | herr
  · right
    have hsplit : ss = ss.take j ++ ss.drop j := (List.take_append_drop j ss).symm
    rw [hsplit] at hfull
    obtain ⟨m, hm⟩ := buildSpec_prefix_ok _ _ _ _ hfull
    refine ⟨j, m, ?_, hm⟩
    rw [buildL_eq_buildSpec, htake, hj]
    exact hm
  · left
    cases h : buildL (ls.take k) with
    | ok m =>
      rw [buildL_eq_buildSpec, htake] at h
      exact absurd h ((buildSpec_err _ _).2 herr m)
    | err e => exact ⟨e, rfl⟩
    | panic s => exact absurd h (C03_no_panic _ s)

end CF
