/-
  C15, operation sequences: a clamped pair is a pair like any other. The result of `clamp` is
  well-formed (so `C15_lift` applies to it), and lifting THROUGH the clamped pair agrees with lifting
  through the original pair on the clamped reference interval and yields nothing outside it — in
  particular nothing survives of the original pair's extent.
-/
import CF.Props.C15
import CF.Props.C01
import CF.Props.C16
namespace CF

/-- restriction of a well-formed pair to the offsets of a sub-range `[A, B]` of its reference interval
    is well-formed, and its reference side is exactly `[A, B]` -/
theorem sub_range_wf (p : Pair) (hp : p.WF) (A B : Nat) (h1 : p.ref.lo ≤ A) (h2 : A ≤ B)
    (h3 : B ≤ p.ref.hi) :
    (p.sub (min (p.ref.offOf A) (p.ref.offOf B)) (max (p.ref.offOf A) (p.ref.offOf B))).WF ∧
    (p.sub (min (p.ref.offOf A) (p.ref.offOf B)) (max (p.ref.offOf A) (p.ref.offOf B))).ref
      = ⟨p.ref.contig, p.ref.strand, A, B⟩ := by
  obtain ⟨⟨r1, r2⟩, ⟨q1, q2⟩, hcnt⟩ := hp
  rcases p with ⟨⟨rcn, rst, rlo, rhi⟩, ⟨qcn, qst, qlo, qhi⟩⟩
  simp only [Interval.count] at *
  constructor
  · cases rst <;> cases qst <;>
      simp only [Pair.WF, Interval.WF, Interval.count, Pair.sub, Interval.sub, Interval.offOf] <;>
      omega
  · cases rst <;> simp only [Pair.sub, Interval.sub, Interval.offOf, Interval.mk.injEq, true_and] <;>
      omega

/-- the pair `clamp` returns is well-formed -/
theorem C15_clamp_wf (p : Pair) (iv : Interval) (hp : p.WF) (hiv : iv.WF)
    (hc : p.ref.contig = iv.contig) (hs : p.ref.strand = iv.strand)
    (hmeet : max p.ref.lo iv.lo ≤ min p.ref.hi iv.hi) :
    ∃ p', p.clamp iv = .ok p' ∧ p'.WF := by
  refine ⟨_, C15_clamp p iv hp hiv hc hs hmeet, ?_⟩
  exact (sub_range_wf p hp _ _ (Nat.le_max_left _ _) hmeet (Nat.min_le_left _ _)).1

/-- lifting through the clamped pair: exactly the original pair's images of the coordinates of the
    intersection (both ends included), nothing for any other coordinate -/
theorem C15_clamp_then_lift (p : Pair) (iv : Interval) (hp : p.WF) (hiv : iv.WF)
    (hc : p.ref.contig = iv.contig) (hs : p.ref.strand = iv.strand)
    (hmeet : max p.ref.lo iv.lo ≤ min p.ref.hi iv.hi) :
    ∃ p', p.clamp iv = .ok p' ∧
      ∀ c : Coord, p'.lift c =
        if c.contig = p.ref.contig ∧ c.strand = p.ref.strand ∧ max p.ref.lo iv.lo ≤ c.pos ∧ c.pos ≤ min p.ref.hi iv.hi
        then p.lift c else none := by
  refine ⟨_, C15_clamp p iv hp hiv hc hs hmeet, ?_⟩
  have hA1 : p.ref.lo ≤ max p.ref.lo iv.lo := Nat.le_max_left _ _
  have hB1 : min p.ref.hi iv.hi ≤ p.ref.hi := Nat.min_le_left _ _
  generalize max p.ref.lo iv.lo = A at *
  generalize min p.ref.hi iv.hi = B at *
  obtain ⟨hwf, href⟩ := sub_range_wf p hp A B hA1 hmeet hB1
  intro c
  rw [C15_lift _ hwf c]
  by_cases hin : c.contig = p.ref.contig ∧ c.strand = p.ref.strand ∧ A ≤ c.pos ∧ c.pos ≤ B
  · rw [if_pos hin]
    have hc1 : (p.sub (min (p.ref.offOf A) (p.ref.offOf B)) (max (p.ref.offOf A) (p.ref.offOf B))).ref.contains c = true := by
      rw [href, contains_iff]; exact ⟨hin.1.symm, hin.2.1.symm, hin.2.2.1, hin.2.2.2⟩
    have hc2 : p.ref.contains c = true := by
      rw [contains_iff]; exact ⟨hin.1.symm, hin.2.1.symm, by omega, by omega⟩
    rw [if_pos hc1, lift_eq p hp c hc2, href]
    obtain ⟨_, _, hpA, hpB⟩ := hin
    obtain ⟨⟨r1, r2⟩, ⟨q1, q2⟩, hcnt⟩ := hp
    rcases p with ⟨⟨rcn, rst, rlo, rhi⟩, ⟨qcn, qst, qlo, qhi⟩⟩
    simp only [Interval.count] at *
    cases rst <;> cases qst <;>
      simp only [Pair.sub, Interval.sub, Interval.offOf, Interval.coordAt, Option.some.injEq,
        Coord.mk.injEq, true_and] <;> omega
  · rw [if_neg hin]
    have hc1 : ¬ (p.sub (min (p.ref.offOf A) (p.ref.offOf B)) (max (p.ref.offOf A) (p.ref.offOf B))).ref.contains c = true := by
      rw [href, contains_iff]; intro h; exact hin ⟨h.1.symm, h.2.1.symm, h.2.2.1, h.2.2.2⟩
    rw [if_neg hc1]

/-- whatever `clamp` returns (any operand, no hypothesis on how they meet): if it returns a pair from
    well-formed inputs, that pair is well-formed -/
theorem C15_clamp_ok_wf (p : Pair) (iv : Interval) (hp : p.WF) (hiv : iv.WF) (p' : Pair)
    (h : p.clamp iv = .ok p') : p'.WF := by
  by_cases hc : p.ref.contig = iv.contig
  · by_cases hs : p.ref.strand = iv.strand
    · by_cases hmeet : max p.ref.lo iv.lo ≤ min p.ref.hi iv.hi
      · obtain ⟨p'', h1, h2⟩ := C15_clamp_wf p iv hp hiv hc hs hmeet
        rw [h1] at h
        cases h
        exact h2
      · simp [Pair.clamp, Interval.clamp, hc, hs, hmeet] at h
    · rw [(C15_clamp_mismatch p iv).2 hc hs] at h
      cases h
  · rw [(C15_clamp_mismatch p iv).1 hc] at h
    cases h

/-- lifting the coordinate at strand-directed offset `k` of the reference interval gives the coordinate at
    offset `k` of the query interval, for every offset up to and including the length -/
theorem C15_lift_coordAt (p : Pair) (hp : p.WF) (k : Nat) (hk : k ≤ p.ref.count) :
    p.lift (p.ref.coordAt k) = some (p.qry.coordAt k) := by
  rw [lift_eq p hp _ (coordAt_contains p.ref hp.1 k hk)]
  have : p.ref.offOf (p.ref.coordAt k).pos = k := by
    obtain ⟨⟨r1, r2⟩, _, _⟩ := hp
    rcases p with ⟨⟨rcn, rst, rlo, rhi⟩, q⟩
    simp only [Interval.count] at *
    cases rst <;> simp only [Interval.offOf, Interval.coordAt] <;> omega
  rw [this]

/-- C01/C15 tie: every pair a machine returns is a well-formed pair … -/
theorem C01_pairs_wf (ls : List Raw) (hv : ∀ r ∈ ls, r.Valid) (ss : List Sec) (hw : WFFile ls ss)
    (m : Machine) (hb : buildL ls = .ok m) (iv : Interval) (hiv : iv.WF) :
    ∀ p ∈ liftL m iv, p.WF := by
  intro p hp
  obtain ⟨s, hs, hsv, hsm, blk, hblk, hh, rfl⟩ := mem_liftL ls hv ss hw m hb iv hiv p hp
  obtain ⟨hwf, _⟩ := blocks_wf s hsv hsm blk hblk
  obtain ⟨_, _, hov⟩ := (hit_iff blk iv).1 hh
  have hw1 := hwf.1.1
  have hw2 := hiv.1
  exact (sub_range_wf blk hwf _ _ (Nat.le_max_left _ _) (by omega) (Nat.min_le_left _ _)).1

/-- … so the pair API applied to a returned pair walks the same alignment: offset `k` of its reference
    maps to offset `k` of its query, whose bases `C01_sound` shows aligned by one block of the file -/
theorem C01_lift_through (ls : List Raw) (hv : ∀ r ∈ ls, r.Valid) (ss : List Sec) (hw : WFFile ls ss)
    (m : Machine) (hb : buildL ls = .ok m) (iv : Interval) (hiv : iv.WF) :
    ∀ p ∈ liftL m iv, ∀ k, k ≤ p.ref.count → p.lift (p.ref.coordAt k) = some (p.qry.coordAt k) := by
  intro p hp k hk
  exact C15_lift_coordAt p (C01_pairs_wf ls hv ss hw m hb iv hiv p hp) k hk

end CF
