/-
  C18 — Machine is shareable across threads; concurrent use equals sequential use (partial).

  What Lean can carry: `Machine::liftover` takes `&self` and the model function
  `Machine.liftover : Machine → Interval → Out …` returns no new machine — a query is an atomic
  read-only step. For every interleaving of per-thread query lists executed as such steps, each
  call's result equals its sequential result. `Send`/`Sync` of the types and the absence of
  `unsafe` are decided by `rustc` on the probe crate `harness/sendsync` and by the source
  inventory; real interleavings and memory-model effects are outside the model (DESIGN §7 C18).
-/
import CF.Model.Machine
namespace CF

/-- one scheduled step: thread `tid` issues query `iv` -/
structure Call where
  tid : Nat
  iv : Interval

/-- executing a schedule on a shared machine: the state is the machine, a step reads it -/
def runSchedule (m : Machine) : List Call → Machine × List (Nat × Out Unit (Option (List Pair)))
  | [] => (m, [])
  | c :: cs =>
    let r := m.liftover c.iv           -- `&self`: the machine is not changed
    let (m', rs) := runSchedule m cs
    (m', (c.tid, r) :: rs)

/-- the results a thread sees, in its program order -/
def resultsOf (tid : Nat) (rs : List (Nat × Out Unit (Option (List Pair)))) :=
  (rs.filter (fun x => x.1 == tid)).map (·.2)

/-- the queries of a thread in a schedule, in program order -/
def queriesOf (tid : Nat) (sched : List Call) : List Interval :=
  (sched.filter (fun c => c.tid == tid)).map (·.iv)

/-- the machine is never changed by a schedule -/
theorem C18_machine_unchanged (m : Machine) (sched : List Call) : (runSchedule m sched).1 = m := by
  induction sched with
  | nil => rfl
  | cons c cs ih => simpa [runSchedule] using ih

/-- **Schedule independence.** For every interleaving, every thread sees exactly the results of
    issuing its own queries one after another on the machine alone. -/
theorem C18_schedule (m : Machine) (sched : List Call) (tid : Nat) :
    resultsOf tid (runSchedule m sched).2 = (queriesOf tid sched).map m.liftover := by
  induction sched with
  | nil => rfl
  | cons c cs ih =>
    simp only [runSchedule, resultsOf, queriesOf, List.filter_cons] at ih ⊢
    by_cases h : (c.tid == tid) = true
    · simp only [h, if_true, List.map_cons]; rw [ih]
    · simp only [h]; exact ih

/-- two interleavings of the same per-thread programs give every thread the same results -/
theorem C18_interleavings (m : Machine) (s₁ s₂ : List Call)
    (h : ∀ tid, queriesOf tid s₁ = queriesOf tid s₂) (tid : Nat) :
    resultsOf tid (runSchedule m s₁).2 = resultsOf tid (runSchedule m s₂).2 := by
  rw [C18_schedule, C18_schedule, h]

end CF
