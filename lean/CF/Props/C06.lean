/-
  C06 — Panic freedom: no byte stream and no query interval makes the library panic.

  In the model every `unwrap()`, `expect()`, `unreachable!()`, `assert!`, slice index and
  unchecked subtraction on a modelled path is an explicit `.panic site` outcome
  (`lean/panic_sites.json` lists them and the source inventory ties that list to `/repo/src`).
  Operations whose model type has no `panic` outcome (`read_line_raw`, `read_line`, `lines()`,
  `StepThrough::next`, `Sequence::interval`, the parsers and constructors) contain no such site.
  The theorems below cover the operations that do.
-/
import CF.Props.C01
import CF.Props.C13
import CF.Props.C14
import CF.Lemmas.SectionsBound
import CF.Model.Ops
namespace CF

/-- iterating sections — every history of `next()` calls, also past errors, on every stream of read
    results (failed reads, invalid UTF-8, unparsable lines included) — never panics -/
theorem C06_sections_no_panic (ls : List Raw) (it : SecIt) (hst : it.st = .between) (fuel : Nat) :
    ∀ s, Out3.panic s ∉ SecIt.drain fuel it ls := by
  exact drain_no_panic fuel ls it hst

/-- …in particular from a fresh iterator over any byte source -/
theorem C06_sections_bytes (v : List UInt8 → Bool) (src : List Ev) (fuel : Nat) :
    ∀ s, Out3.panic s ∉ SecIt.drain fuel SecIt.new ((rawLines v src).map Raw.ofRes) :=
  C06_sections_no_panic _ _ rfl _

/-- building a machine from any byte stream never panics -/
theorem C06_build_no_panic (v : List UInt8 → Bool) (src : List Ev) : ∀ site, build v src ≠ .panic site :=
  C03_no_panic _

/-- lifting any interval over any machine that was built — from any byte stream whatsoever — returns
    a value: never an error, never a panic (zero-length intervals, unknown contigs, positions up
    to u64::MAX, zero-size blocks in the file, …) -/
theorem C06_liftover_no_panic (v : List UInt8 → Bool) (src : List Ev) (m : Machine)
    (hb : build v src = .ok m) (iv : Interval) (hiv : iv.WF) : ∃ r, m.liftover iv = .ok r := by
  have hv : ∀ r ∈ (rawLines v src).map Raw.ofRes, r.Valid := by
    intro r hr
    obtain ⟨x, _, rfl⟩ := List.mem_map.mp hr
    exact C14_raw x
  obtain ⟨ss, hw⟩ := (C03_iff _ hv).mp ⟨m, hb⟩
  exact C01_total _ hv ss hw m hb iv hiv

/-- every interval the API can construct (`Interval::try_new` on u64 coordinates) is well-formed -/
theorem C06_tryNew_wf (s e : Coord) (hs : s.pos ≤ U64_MAX) (he : e.pos ≤ U64_MAX) (iv : Interval)
    (h : Interval.tryNew s e = .ok iv) : iv.WF := by
  unfold Interval.tryNew at h
  split at h
  · cases h
  · split at h
    · cases h
    · split at h
      · split at h
        · cases h
        · cases h; exact ⟨by simp only; omega, he⟩
      · split at h
        · cases h
        · cases h; exact ⟨by simp only; omega, hs⟩

/-- printing any line the parser accepted never reaches the two `expect`s of `Display for Record` -/
theorem C06_print_parsed (t : List UInt8) (l : Line) (hp : Line.parse t = .ok l) : ∃ bs, l.print = .ok bs := by
  obtain ⟨bs, h, _⟩ := C13_line t l hp
  exact ⟨bs, h⟩

/-- …nor does printing any record the public constructor accepted -/
theorem C06_print_constructed (size : Nat) (dt dq : Option Nat) (kind : Kind) (r : Rec)
    (h : Rec.tryNew size dt dq kind = .ok r) : ∃ bs, r.print = .ok bs := by
  have := C14_record_new_eq size dt dq kind r h
  subst this
  have hx := (C14_record_new size dt dq kind).mp ⟨_, h⟩
  rcases hx with ⟨hk, h1, h2⟩ | ⟨hk, h1, h2⟩
  · cases dt with
    | none => simp at h1
    | some a =>
      cases dq with
      | none => simp at h2
      | some b => simp [Rec.print, hk]
  · simp [Rec.print, hk]

/-- stepping through any section never panics: the outcome type of `StepThrough::next` in the model is
    `Option (Except StErr (Pair × Rec))` — the code has no panic-capable site (all moves are checked) -/
theorem C06_step_total (it : StepIt) : ∃ r it', it.next = (r, it') := ⟨_, _, rfl⟩

end CF
