/-
  C10 — exchanging reference and query twice is the identity, at every level of the model.
-/
import CF.Props.C10
namespace CF

theorem Rec.swap_swap (r : Rec) : r.swap.swap = r := by cases r; rfl
theorem Hdr.swap_swap (h : Hdr) : h.swap.swap = h := by cases h; rfl
theorem Line.swap_swap (l : Line) : l.swap.swap = l := by
  cases l with
  | empty => rfl
  | header h => simp only [Line.swap, Hdr.swap_swap]
  | data r => simp only [Line.swap, Rec.swap_swap]
theorem Raw.swap_swap (r : Raw) : r.swap.swap = r := by
  cases r with
  | line l => simp only [Raw.swap, Line.swap_swap]
  | unparsable t => rfl
  | io => rfl
theorem Sec.swap_swap (s : Sec) : s.swap.swap = s := by
  obtain ⟨h, d⟩ := s
  simp only [Sec.swap, Hdr.swap_swap, List.map_map]
  congr 1
  induction d with
  | nil => rfl
  | cons r rs ih => simp only [List.map_cons, Function.comp_apply, Rec.swap_swap, ih]

/-- exchanging the roles twice gives back the very same stream of lines… -/
theorem C10_involutive (ls : List Raw) : (ls.map Raw.swap).map Raw.swap = ls := by
  induction ls with
  | nil => rfl
  | cons r rs ih => simp only [List.map_cons, Raw.swap_swap, ih]

/-- …and therefore the very same machine: the twice-exchanged file builds exactly what the original builds
    (error or machine), whatever the file. -/
theorem C10_machine_involutive (ls : List Raw) :
    buildL ((ls.map Raw.swap).map Raw.swap) = buildL ls := by
  rw [C10_involutive]

/-- the exchanged machine's exchanged machine maps `x` to `y` exactly when the original does
    (`C10_machine` applied twice lands on the original machine) -/
theorem C10_round_trip (ls : List Raw) (hv : ∀ r ∈ ls, r.Valid) (ss : List Sec) (hw : WFFile ls ss)
    (m : Machine) (hb : buildL ls = .ok m) :
    ∃ m', buildL (ls.map Raw.swap) = .ok m' ∧
      ∃ m'', buildL ((ls.map Raw.swap).map Raw.swap) = .ok m'' ∧ m'' = m := by
  obtain ⟨m', hb', _⟩ := C10_machine ls hv ss hw m hb
  exact ⟨m', hb', m, by rw [C10_involutive]; exact hb, rfl⟩

end CF
