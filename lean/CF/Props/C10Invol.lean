/-
  C10 — exchanging reference and query twice is the identity, at every level of the model.
-/
import CF.Props.C10
namespace CF

theorem Rec.swap_swap (r : Rec) : r.swap.swap = r := by cases r; rfl
theorem Hdr.swap_swap (h : Hdr) : h.swap.swap = h := by cases h; rfl
theorem Line.swap_swap (l : Line) : l.swap.swap = l := by
  cases l with
  | empty => rfl
  | header h => simp only [Line.swap, Hdr.swap_swap]
  | data r => simp only [Line.swap, Rec.swap_swap]
theorem Raw.swap_swap (r : Raw) : r.swap.swap = r := by
  cases r with
  | line l => simp only [Raw.swap, Line.swap_swap]
  | unparsable t => rfl
  | io => rfl
theorem Sec.swap_swap (s : Sec) : s.swap.swap = s := by
  obtain ⟨h, d⟩ := s
  simp only [Sec.swap, Hdr.swap_swap, List.map_map]
  congr 1
  induction d with
  | nil => rfl
  | cons r rs ih => simp only [List.map_cons, Function.comp_apply, Rec.swap_swap, ih]

/-- exchanging the roles twice gives back the very same stream of lines… -/
theorem C10_involutive (ls : List Raw) : (ls.map Raw.swap).map Raw.swap = ls := by
  induction ls with
  | nil => rfl
  | cons r rs ih => simp only [List.map_cons, Raw.swap_swap, ih]

/-- …and therefore the very same machine: the twice-exchanged file builds exactly what the original builds
    (error or machine), whatever the file. -/
theorem C10_machine_involutive (ls : List Raw) :
    buildL ((ls.map Raw.swap).map Raw.swap) = buildL ls := by
  rw [C10_involutive]

/-- the exchanged machine's exchanged machine maps `x` to `y` exactly when the original does
    (`C10_machine` applied twice lands on the original machine) -/
theorem C10_round_trip (ls : List Raw) (hv : ∀ r ∈ ls, r.Valid) (ss : List Sec) (hw : WFFile ls ss)
    (m : Machine) (hb : buildL ls = .ok m) :
    ∃ m', buildL (ls.map Raw.swap) = .ok m' ∧
      ∃ m'', buildL ((ls.map Raw.swap).map Raw.swap) = .ok m'' ∧ m'' = m := by
  obtain ⟨m', hb', _⟩ := C10_machine ls hv ss hw m hb
  exact ⟨m', hb', m, by rw [C10_involutive]; exact hb, rfl⟩

end CF

namespace CF

/-- `C10_machine` for whole intervals instead of single bases: for any request `iv` on the reference side
    and any request `jv` on the query side, the pairings `x ↦ y` of lifting `iv` whose image lies in `jv`
    are exactly the reversed pairings `y ↦ x` of lifting `jv` in the exchanged machine whose image lies
    in `iv`. -/
theorem C10_machine_intervals (ls : List Raw) (hv : ∀ r ∈ ls, r.Valid) (ss : List Sec) (hw : WFFile ls ss)
    (m : Machine) (hb : buildL ls = .ok m) :
    ∃ m', buildL (ls.map Raw.swap) = .ok m' ∧
      ∀ (iv jv : Interval), iv.WF → jv.WF → ∀ x y : Base,
        ((basePairs (liftL m iv) x y ∧ jv.hasBase y) ↔ (basePairs (liftL m' jv) y x ∧ iv.hasBase x)) := by
  have hw' := C10_swap_wf ls ss hw
  have hv' := C10_swap_valid ls hv
  obtain ⟨m', hb'⟩ := (C03_iff _ hv').2 ⟨_, hw'⟩
  refine ⟨m', hb', ?_⟩
  intro iv jv hiv hjv x y
  rw [lift_char ls hv ss hw m hb iv hiv, lift_char _ hv' _ hw' m' hb' jv hjv]
  constructor
  · rintro ⟨⟨h, hx⟩, hy⟩
    exact ⟨⟨(C10_swap_aligned ss x y).1 h, hy⟩, hx⟩
  · rintro ⟨⟨h, hy⟩, hx⟩
    exact ⟨⟨(C10_swap_aligned ss x y).2 h, hx⟩, hy⟩

end CF
