/-
  C12 at the level of the built machine: line endings and blank padding.
-/
import CF.Props.Bytes
import CF.Lemmas.C12Aux
namespace CF

/-- erase the line number quoted by a blank-line error (the only thing blank padding may change) -/
def BuildErr.eraseLineNo : BuildErr → BuildErr
  | .sections (.blank _) => .sections (.blank 0)
  | e => e

def Out.eraseLineNo : Out BuildErr Machine → Out BuildErr Machine
  | .err e => .err e.eraseLineNo
  | x => x

/-- erasing line numbers commutes with the builder's fold over the parse -/
theorem buildSpec_eraseLineNo : ∀ (xs ys : List SpecItem) (m : Machine),
    xs.map eraseLineNo = ys.map eraseLineNo →
    (buildSpec xs m).eraseLineNo = (buildSpec ys m).eraseLineNo := by
  intro xs
  induction xs with
  | nil =>
    intro ys m h
    cases ys with
    | nil => rfl
    | cons y ys => simp at h
  | cons x xs ih =>
    intro ys m h
    cases ys with
    | nil => simp at h
    | cons y ys =>
      simp only [List.map_cons, List.cons.injEq] at h
      obtain ⟨hxy, hrest⟩ := h
      cases x with
      | sec s =>
        cases y with
        | sec s' =>
          simp only [eraseLineNo, SpecItem.sec.injEq] at hxy
          subst hxy
          simp only [buildSpec]
          cases ha : m.addSection s with
          | error e => rfl
          | ok m' => exact ih ys m' hrest
        | err e' => cases e' <;> simp [eraseLineNo] at hxy
      | err e =>
        cases y with
        | sec s' => cases e <;> simp [eraseLineNo] at hxy
        | err e' =>
          cases e <;> cases e' <;> simp [eraseLineNo] at hxy <;>
            simp [buildSpec, Out.eraseLineNo, BuildErr.eraseLineNo, hxy]

/-- the built result, up to blank-line numbers, depends only on the parse up to line numbers -/
theorem buildL_eraseLineNo (ls ls' : List Raw)
    (h : (specSecs 1 ls).map eraseLineNo = (specSecs 1 ls').map eraseLineNo) :
    (buildL ls).eraseLineNo = (buildL ls').eraseLineNo := by
  rw [buildL_eq_buildSpec, buildL_eq_buildSpec]
  exact buildSpec_eraseLineNo _ _ _ h

/-- **Line endings.** The same line texts written with LF or with CRLF, with or without a final
    terminator, build the same machine or fail with the same error (texts contain no LF and do not
    end in CR; `hv`: the reader's UTF-8 check accepts the lines in both encodings). -/
theorem C12_build_endings (v : List UInt8 → Bool) (hv : ∀ bs, v bs = true)
    (ts : List (List UInt8)) (hlf : ∀ t ∈ ts, LF ∉ t) (hcr : ∀ t ∈ ts, t.getLast? ≠ some CR)
    (final₁ final₂ : Bool) (h₁ : final₁ = false → ts.getLast? ≠ some []) (h₂ : final₂ = false → ts.getLast? ≠ some []) :
    build v [.chunk (encodeLines [CR, LF] final₁ ts)] = build v [.chunk (encodeLines [LF] final₂ ts)] := by
  unfold build
  rw [rawLines_chunk, rawLines_chunk, linesOfBytes_ofRes v hv, linesOfBytes_ofRes v hv,
    (C12_endings ts hlf hcr final₁ h₁).2, (C12_endings ts hlf hcr final₂ h₂).1]

/-- **Blank padding between sections** does not change the machine; it can only shift the line number
    quoted by a later blank-line error. `a` is a run of complete sections (it conforms to the grammar),
    `k` blank lines are inserted after it, `rest` is arbitrary. -/
theorem C12_build_blank (a : List Line) (ss : List Sec) (ha : Parses a ss) (k : Nat) (rest : List Raw) :
    (buildL (a.map Raw.line ++ List.replicate k (Raw.line .empty) ++ rest)).eraseLineNo =
      (buildL (a.map Raw.line ++ rest)).eraseLineNo := by
  apply buildL_eraseLineNo
  rw [List.append_assoc, specSecs_parses_append ha, specSecs_parses_append ha,
    specSecs_replicate_empty, List.map_append, List.map_append,
    C12_lineNo_irrelevant (1 + a.length + k) (1 + a.length) rest]

/-- blank lines before the first section (after the last one: `C12_build_blank` with `rest = []`) -/
theorem C12_build_blank_front (k₁ : Nat) (ls : List Raw) :
    (buildL (List.replicate k₁ (Raw.line .empty) ++ ls)).eraseLineNo = (buildL ls).eraseLineNo := by
  apply buildL_eraseLineNo
  rw [specSecs_replicate_empty]
  exact C12_lineNo_irrelevant _ _ ls

end CF
