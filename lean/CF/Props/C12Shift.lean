/-
  C12, the parenthesis "(only line numbers quoted in errors shift with inserted blank lines)" made
  exact: the specification-level parse started `k` lines later is the same parse with every quoted
  line number increased by `k`; hence `k` blank lines put in front of a stream shift the numbers
  by exactly `k` and change nothing else.
-/
import CF.Props.C12
namespace CF

/-- add `k` to the line number quoted in a `blank` error; every other item unchanged -/
def shiftLineNo (k : Nat) : SpecItem → SpecItem
  | .err (.blank m) => .err (.blank (m + k))
  | x => x

/-- add `k` to the line number quoted in a `blank` error -/
def shiftErrNo (k : Nat) : SecErr → SecErr
  | .blank m => .blank (m + k)
  | e => e

theorem shiftLineNo_err (k : Nat) (e : SecErr) :
    shiftLineNo k (.err e) = .err (shiftErrNo k e) := by
  cases e <;> rfl

theorem specBody_shift (k : Nat) : ∀ (ls : List Raw) (n : Nat) (acc : List Rec),
    (∀ ds rest, specBody n ls acc = .ok (ds, rest) → specBody (n + k) ls acc = .ok (ds, rest)) ∧
    (∀ e rest, specBody n ls acc = .error (e, rest) →
      specBody (n + k) ls acc = .error (shiftErrNo k e, rest)) := by
  intro ls
  induction ls with
  | nil => intro n acc; simp [specBody, shiftErrNo]
  | cons x xs ih =>
    intro n acc
    cases x with
    | io => simp [specBody, shiftErrNo]
    | unparsable t => simp [specBody, shiftErrNo]
    | line l =>
      cases l with
      | empty => simp [specBody, shiftErrNo]
      | header h => simp [specBody, shiftErrNo]
      | data r =>
        simp only [specBody]
        cases r.kind with
        | term => simp
        | nonterm =>
          have := ih (n + 1) (acc ++ [r])
          rw [Nat.add_right_comm n 1 k] at this
          exact this

theorem specSecs_shift_aux (k : Nat) : ∀ (m : Nat) (ls : List Raw) (n : Nat), ls.length ≤ m →
    specSecs (n + k) ls = (specSecs n ls).map (shiftLineNo k) := by
  intro m
  induction m with
  | zero =>
    intro ls n h
    cases ls with
    | nil => simp [specSecs_nil]
    | cons x xs => simp at h
  | succ m ih =>
    intro ls n hlen
    cases ls with
    | nil => simp [specSecs_nil]
    | cons x rest =>
      simp only [List.length_cons] at hlen
      cases x with
      | io => simp [specSecs_io, shiftLineNo]
      | unparsable t => simp [specSecs_unparsable, shiftLineNo]
      | line l =>
        cases l with
        | empty =>
          rw [specSecs_empty, specSecs_empty, Nat.add_right_comm n k 1]
          exact ih rest _ (by omega)
        | data r => simp [specSecs_data, shiftLineNo]
        | header h =>
          cases hb : specBody (n + 1) rest [] with
          | error p =>
            obtain ⟨e, r⟩ := p
            have hb' := (specBody_shift k rest (n + 1) []).2 e r hb
            rw [Nat.add_right_comm n 1 k] at hb'
            rw [specSecs_header_err _ _ _ _ _ hb, specSecs_header_err _ _ _ _ _ hb']
            simp [shiftLineNo_err]
          | ok p =>
            obtain ⟨ds, r⟩ := p
            have hb' := (specBody_shift k rest (n + 1) []).1 ds r hb
            rw [Nat.add_right_comm n 1 k] at hb'
            have hl := (specBody_length (n + 1) rest []).2 ds r hb
            rw [specSecs_header_ok _ _ _ _ _ hb, specSecs_header_ok _ _ _ _ _ hb']
            simp only [List.map_cons]
            congr 1
            have := ih r (n + 1 + ds.length) (by omega)
            rw [← this]
            congr 1
            omega

theorem C12_lineNo_shift (n k : Nat) (ls : List Raw) :
    specSecs (n + k) ls = (specSecs n ls).map (shiftLineNo k) := by
  exact specSecs_shift_aux k ls.length ls n (Nat.le_refl _)

theorem C12_blank_front_shift (n k : Nat) (ls : List Raw) :
    specSecs n (List.replicate k (Raw.line .empty) ++ ls) = (specSecs n ls).map (shiftLineNo k) := by
  induction k generalizing n with
  | zero =>
    have h := C12_lineNo_shift n 0 ls
    simpa using h
  | succ k ih =>
    rw [List.replicate_succ, List.cons_append, specSecs_empty, ih (n + 1),
      ← C12_lineNo_shift, ← C12_lineNo_shift]
    congr 1
    omega

end CF
