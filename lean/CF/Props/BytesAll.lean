/-
  More byte-level corollaries: C09, C11 (order) and C16 restated for `build v src` on an arbitrary
  scripted byte source (chunks, interrupts and failures), with no hypothesis on the lines: validity is
  discharged by `rawsOf_valid` (= `C14_raw`) and well-formedness follows from the build having succeeded
  (`C03_iff_bytes`).
-/
import CF.Props.Bytes
import CF.Props.C09
import CF.Props.C11
namespace CF

/-- C09 for bytes: whole = union of the two parts, for every split point -/
theorem C09_split_bytes (v : List UInt8 → Bool) (src : List Ev) (m : Machine) (hb : build v src = .ok m)
    (iv : Interval) (hiv : iv.WF) (p : Nat) (h1 : iv.lo ≤ p) (h2 : p ≤ iv.hi) (x y : Base) :
    basePairs (liftL m iv) x y ↔
      (basePairs (liftL m ⟨iv.contig, iv.strand, iv.lo, p⟩) x y ∨ basePairs (liftL m ⟨iv.contig, iv.strand, p, iv.hi⟩) x y) := by
  obtain ⟨ss, hw⟩ := (C03_iff_bytes v src).1 ⟨m, hb⟩
  exact C09_split (rawsOf v src) (rawsOf_valid v src) ss hw m hb iv hiv p h1 h2 x y

/-- C09 for bytes: a position maps identically alone or as part of a larger interval -/
theorem C09_single_bytes (v : List UInt8 → Bool) (src : List Ev) (m : Machine) (hb : build v src = .ok m)
    (iv : Interval) (hiv : iv.WF) (x y : Base) :
    basePairs (liftL m iv) x y ↔ (iv.hasBase x ∧ basePairs (liftL m x.iv) x y) := by
  obtain ⟨ss, hw⟩ := (C03_iff_bytes v src).1 ⟨m, hb⟩
  exact C09_single (rawsOf v src) (rawsOf_valid v src) ss hw m hb iv hiv x y

/-- C09 for bytes: no pair reaches outside the requested interval -/
theorem C09_inside_bytes (v : List UInt8 → Bool) (src : List Ev) (m : Machine) (hb : build v src = .ok m)
    (iv : Interval) (hiv : iv.WF) :
    ∀ p ∈ liftL m iv, p.ref.contig = iv.contig ∧ p.ref.strand = iv.strand ∧ iv.lo ≤ p.ref.lo ∧ p.ref.hi ≤ iv.hi := by
  obtain ⟨ss, hw⟩ := (C03_iff_bytes v src).1 ⟨m, hb⟩
  exact C09_inside (rawsOf v src) (rawsOf_valid v src) ss hw m hb iv hiv

/-- C11 for bytes: every answer of every machine built from bytes is ordered by reference start -/
theorem C11_sorted_bytes (v : List UInt8 → Bool) (src : List Ev) (m : Machine) (hb : build v src = .ok m)
    (iv : Interval) (hiv : iv.WF) : (liftL m iv).Pairwise (fun a b => a.ref.lo ≤ b.ref.lo) := by
  obtain ⟨ss, hw⟩ := (C03_iff_bytes v src).1 ⟨m, hb⟩
  exact C11_sorted (rawsOf v src) (rawsOf_valid v src) ss hw m hb iv hiv

/-- C16 for bytes: every coordinate returned lies within the size the machine reports for its contig -/
theorem C16_bounds_bytes (v : List UInt8 → Bool) (src : List Ev) (m : Machine) (hb : build v src = .ok m)
    (iv : Interval) (hiv : iv.WF) :
    ∀ p ∈ liftL m iv,
      (∃ size, (p.ref.contig, size) ∈ m.refDict ∧ p.ref.lo ≤ p.ref.hi ∧ p.ref.hi ≤ size) ∧
      (∃ size, (p.qry.contig, size) ∈ m.qryDict ∧ p.qry.lo ≤ p.qry.hi ∧ p.qry.hi ≤ size) := by
  obtain ⟨ss, hw⟩ := (C03_iff_bytes v src).1 ⟨m, hb⟩
  exact C16_bounds (rawsOf v src) (rawsOf_valid v src) ss hw m hb iv hiv

/-- C16 for bytes: the dictionaries of every machine built from bytes are functional (one size per name) -/
theorem C16_dicts_functional_bytes (v : List UInt8 → Bool) (src : List Ev) (m : Machine) (hb : build v src = .ok m) :
    (∀ x y y', (x, y) ∈ m.refDict → (x, y') ∈ m.refDict → y = y') ∧
    (∀ x y y', (x, y) ∈ m.qryDict → (x, y') ∈ m.qryDict → y = y') := by
  obtain ⟨ss, hw⟩ := (C03_iff_bytes v src).1 ⟨m, hb⟩
  exact (C16_dicts (rawsOf v src) (rawsOf_valid v src) ss hw m hb).2.2

end CF
