/-
  C13 — Print/parse round trip for records and lines.
  Property theorems only.
-/
import CF.Lemmas.Text
import CF.Spec.WF
import CF.Lemmas.Record
namespace CF

/-- a numeral is canonical: it is exactly what `Display for u64` prints for its value -/
def canonNum (f : List UInt8) : Bool :=
  match parseU64 f with
  | some v => f == printNat v
  | none => false

/-- all numeric fields of a header line are canonical numerals -/
def canonHeaderText (t : List UInt8) : Bool :=
  match splitOn SP t with
  | [_, p1, _, p3, _, p5, p6, _, p8, _, p10, p11, p12] =>
    canonNum p1 && canonNum p3 && canonNum p5 && canonNum p6 && canonNum p8 && canonNum p10 && canonNum p11 && canonNum p12
  | _ => false

def canonDataText (t : List UInt8) : Bool := (splitOn TAB t).all canonNum

theorem C13_num (n : Nat) (h : n ≤ U64_MAX) : parseU64 (printNat n) = some n := by
  exact parseU64_printNat n h

/-- every header the parser accepts prints to text that parses back to an equal header -/
theorem C13_header (t : List UInt8) (h : Hdr) (hp : Hdr.parse t = .ok h) : Hdr.parse h.print = .ok h := by
  obtain ⟨p1, p2, p3, p4, p5, p6, p7, p8, p9, p10, p11, p12, hs, hsc, hr, hq, hid, h1, h2⟩ :=
    Hdr.parse_inv hp
  obtain ⟨r0, r1, _, _, _, r5⟩ := Seq.ofParts_inv hr
  obtain ⟨q0, q1, _, _, _, q5⟩ := Seq.ofParts_inv hq
  have hm := splitOn_no_sep SP t
  rw [hs] at hm
  have hn : SP ∉ h.ref.name ∧ SP ∉ h.qry.name := by
    rw [r0, q0]; exact ⟨hm p2 (by simp), hm p7 (by simp)⟩
  exact Hdr.parse_print h hn (parseU64_le hsc) (parseU64_le hid) ⟨r5, h1, parseU64_le r1⟩
    ⟨q5, h2, parseU64_le q1⟩

/-- every data record the parser or the public constructor accepts prints to text that parses
    back to an equal record -/
theorem C13_record (r : Rec) (hv : r.Valid) : ∃ bs, r.print = .ok bs ∧ Rec.parse bs = .ok r := by
  obtain ⟨size, dt, dq, kind⟩ := r
  obtain ⟨h1, h2, h3, h4, h5⟩ := hv
  simp only at h1 h2 h3 h4 h5
  cases kind with
  | term =>
    cases dt with
    | some dt => simp at h1
    | none =>
      cases dq with
      | some dq => simp at h2
      | none => exact ⟨_, rfl, Rec.parse_print_term size h3⟩
  | nonterm =>
    cases dt with
    | none => simp at h1
    | some dt =>
      cases dq with
      | none => simp at h2
      | some dq =>
        exact ⟨_, rfl, Rec.parse_print_nonterm size dt dq h3 (by simpa using h4) (by simpa using h5)⟩

/-- every line the parser accepts (any contig names without spaces, any numbers incl. leading
    zeros or '+', both strands) prints to text that parses back to an equal line -/
theorem C13_line (t : List UInt8) (l : Line) (hp : Line.parse t = .ok l) :
    ∃ bs, l.print = .ok bs ∧ Line.parse bs = .ok l := by
  rcases Line.parse_inv hp with ⟨_, hl⟩ | ⟨h, hl, hh⟩ | ⟨r, hl, hr⟩
  · subst hl
    exact ⟨[], rfl, rfl⟩
  · subst hl
    exact ⟨h.print, rfl, Line.parse_header (isPrefix_CHAIN_print h) (C13_header t h hh)⟩
  · subst hl
    have hv : r.Valid := by
      rcases Rec.parse_inv hr with ⟨p0, hs, hsz, hdt, hdq, hk⟩ |
        ⟨p0, p1, p2, dt, dq, hs, hsz, hdt', hdq', hdt, hdq, hk⟩
      · refine ⟨?_, ?_, parseU64_le hsz, ?_, ?_⟩ <;> simp [hdt, hdq, hk]
      · refine ⟨?_, ?_, parseU64_le hsz, ?_, ?_⟩ <;>
          simp [hdt, hdq, hk, parseU64_le hdt', parseU64_le hdq']
    obtain ⟨bs, hb, hpb⟩ := C13_record r hv
    obtain ⟨d, rest, hbs, hd⟩ := Rec.print_head hb
    subst hbs
    exact ⟨_, hb, Line.parse_data hd hpb⟩

/-- canonical header text prints back byte-identically -/
theorem C13_header_canonical (t : List UInt8) (h : Hdr) (hp : Hdr.parse t = .ok h)
    (hc : canonHeaderText t = true) : h.print = t := by
  have key : ∀ f v, canonNum f = true → parseU64 f = some v → printNat v = f := by
    intro f v hc hv
    unfold canonNum at hc
    rw [hv] at hc
    simp only [beq_iff_eq] at hc
    exact hc.symm
  obtain ⟨p1, p2, p3, p4, p5, p6, p7, p8, p9, p10, p11, p12, hs, hsc, hr, hq, hid, h1, h2⟩ :=
    Hdr.parse_inv hp
  obtain ⟨r0, r1, r2, r3, r4, r5⟩ := Seq.ofParts_inv hr
  obtain ⟨q0, q1, q2, q3, q4, q5⟩ := Seq.ofParts_inv hq
  unfold canonHeaderText at hc
  rw [hs] at hc
  simp only [Bool.and_eq_true] at hc
  obtain ⟨⟨⟨⟨⟨⟨⟨c1, c3⟩, c5⟩, c6⟩, c8⟩, c10⟩, c11⟩, c12⟩ := hc
  have ht := joinWith_splitOn SP t
  rw [hs] at ht
  rw [Hdr.print_eq_joinWith, key _ _ c1 hsc, key _ _ c3 r1, key _ _ c5 r3, key _ _ c6 r4,
    key _ _ c8 q1, key _ _ c10 q3, key _ _ c11 q4, key _ _ c12 hid,
    Strand.print_of_parse r2, Strand.print_of_parse q2, r0, q0]
  exact ht

/-- canonical data text prints back byte-identically -/
theorem C13_record_canonical (t : List UInt8) (r : Rec) (hp : Rec.parse t = .ok r)
    (hc : canonDataText t = true) : r.print = .ok t := by
  have key : ∀ f v, canonNum f = true → parseU64 f = some v → printNat v = f := by
    intro f v hc hv
    unfold canonNum at hc
    rw [hv] at hc
    simp only [beq_iff_eq] at hc
    exact hc.symm
  have ht := joinWith_splitOn TAB t
  unfold canonDataText at hc
  obtain ⟨size, dt, dq, kind⟩ := r
  rcases Rec.parse_inv hp with ⟨p0, hs, hsz, hdt, hdq, hk⟩ |
    ⟨p0, p1, p2, dt', dq', hs, hsz, hdt', hdq', hdt, hdq, hk⟩
  · simp only at hsz hdt hdq hk
    subst hdt hdq hk
    rw [hs] at hc ht
    simp only [List.all_cons, List.all_nil, Bool.and_true] at hc
    simp only [Rec.print]
    rw [key _ _ hc hsz]
    exact congrArg _ ht
  · simp only at hsz hdt hdq hk
    subst hdt hdq hk
    rw [hs] at hc ht
    simp only [List.all_cons, List.all_nil, Bool.and_true, Bool.and_eq_true] at hc
    obtain ⟨c0, c1, c2⟩ := hc
    simp only [Rec.print]
    rw [key _ _ c0 hsz, key _ _ c1 hdt', key _ _ c2 hdq']
    refine congrArg _ ?_
    rw [← ht]
    simp [joinWith, List.append_assoc]

/-- printed text is canonical, so printing is idempotent through the parser -/
theorem C13_print_canonical (h : Hdr) (hv : h.Valid) (hn : SP ∉ h.ref.name ∧ SP ∉ h.qry.name) :
    canonHeaderText h.print = true := by
  have key : ∀ n, n ≤ U64_MAX → canonNum (printNat n) = true := by
    intro n hn
    unfold canonNum
    rw [parseU64_printNat n hn]
    simp
  obtain ⟨⟨r1, r2, r3⟩, ⟨q1, q2, q3⟩, hsc, hid⟩ := hv
  unfold canonHeaderText
  rw [Hdr.splitOn_print h hn]
  simp only [key _ hsc, key _ hid, key _ r3, key _ q3, key h.ref.start (by omega),
    key h.ref.stop (by omega), key h.qry.start (by omega), key h.qry.stop (by omega), Bool.and_self]

end CF
