/-
  C04 — Step-through tiles a chain exactly as its records and header dictate.
  Property theorems only; helper lemmas live in `CF/Lemmas/Step*.lean`.
-/
import CF.Lemmas.Step
import CF.Spec.WF
import CF.Lemmas.StepConv
namespace CF

/-- an item is a pair (not an error) -/
def Item.isOk : Item → Bool
  | .ok _ => true
  | .error _ => false

/-- For a valid header the step-through can always be created, and its pointers start at the
    header's start and aim at the header's end on both sides. -/
theorem C04_new (s : Sec) (hv : s.hdr.Valid) :
    StepIt.new s = .ok ⟨s.hdr.ref.coordOf s.hdr.ref.start, s.hdr.ref.coordOf s.hdr.ref.stop,
                        s.hdr.qry.coordOf s.hdr.qry.start, s.hdr.qry.coordOf s.hdr.qry.stop,
                        s.data, false, false⟩ := by
  exact StepIt.new_valid s hv

/-- The tiling theorem. For every section with a valid header (all four strand combinations, any
    `start ≤ end ≤ size ≤ u64::MAX`) and every record list (any length; sizes and gaps including 0
    and values that overflow or run below position 0 on a minus strand), draining the step-through
    yields a prefix of the prefix-sum tiling `expected` — one pair per record, in order, each with
    its record — followed either by nothing, in which case all records were used and they add up
    to both header extents, or by exactly one error, in which case they do not add up. -/
theorem C04_tiling (s : Sec) (hv : s.hdr.Valid) (it : StepIt) (hit : StepIt.new s = .ok it)
    (fuel : Nat) (hf : s.data.length + 2 ≤ fuel) :
    ∃ k, k ≤ s.data.length ∧
      ((it.drain fuel = ((expected s.hdr s.hdr.ref.start s.hdr.qry.start s.data).take k).map .ok
          ∧ k = s.data.length ∧ s.sumsMatch) ∨
       (∃ e, it.drain fuel = ((expected s.hdr s.hdr.ref.start s.hdr.qry.start s.data).take k).map .ok ++ [.error e]
          ∧ ¬ s.sumsMatch)) := by
  rw [StepIt.new_valid s hv] at hit
  cases hit
  exact drain_tiling s.hdr hv.1.2.2 hv.2.1.2.2 s.hdr.ref.stop s.hdr.qry.stop
    hv.1.stop_le_bound hv.2.1.stop_le_bound s.data s.hdr.ref.start s.hdr.qry.start fuel
    hv.1.start_le_bound hv.2.1.start_le_bound (by omega)

/-- It completes without error exactly when the records add up to both header extents. -/
theorem C04_iff (s : Sec) (hv : s.hdr.Valid) (it : StepIt) (hit : StepIt.new s = .ok it)
    (fuel : Nat) (hf : s.data.length + 2 ≤ fuel) :
    (it.drain fuel).all Item.isOk = true ↔ s.sumsMatch := by
  obtain ⟨k, _, ⟨hd, _, hm⟩ | ⟨e, hd, hm⟩⟩ := C04_tiling s hv it hit fuel hf
  · rw [hd]
    refine ⟨fun _ => hm, fun _ => ?_⟩
    simp only [List.all_eq_true, List.mem_map]
    rintro x ⟨y, _, rfl⟩
    rfl
  · rw [hd]
    refine ⟨fun h => ?_, fun h => absurd h hm⟩
    simp [List.all_append, Item.isOk] at h

/-- What `expected` says, spelled out (so that the tiling theorem can be read against the
    property): pair `i` lies on the header's contigs and strands, starts at the running local
    positions `(t, q)`, spans exactly its record's size on both sides, and the next pair starts
    `size + dt` / `size + dq` further in strand direction. -/
theorem C04_expected_cons (h : Hdr) (t q : Nat) (r : Rec) (rs : List Rec) :
    expected h t q (r :: rs) =
      (⟨h.ref.ivOf t r.size, h.qry.ivOf q r.size⟩, r) ::
        expected h (t + r.size + r.dt.getD 0) (q + r.size + r.dq.getD 0) rs := rfl

/-- `ivOf` in interbase terms: on '+' it is `[x, x+n]`, on '-' it is `[size-(x+n), size-x]`, i.e. it
    runs from `size - x` down to `size - (x+n)`; its length is `n` whenever it fits on the contig. -/
theorem C04_ivOf (s : Seq) (x n : Nat) (hfit : x + n ≤ s.size ∨ s.strand = .pos) :
    (s.ivOf x n).contig = s.name ∧ (s.ivOf x n).strand = s.strand ∧
    (s.ivOf x n).start = s.coordOf x ∧ (s.ivOf x n).stop = s.coordOf (x + n) ∧
    (s.ivOf x n).count = n := by
  rcases s with ⟨nm, sz, st, a, b⟩
  cases st <;>
    simp [Seq.ivOf, Seq.coordOf, Interval.start, Interval.stop, Interval.count] at * <;> omega

/-- when the records add up, the last pair ends at the header's end on both sides: the local
    position after the last block is `stop` -/
theorem C04_last (s : Sec) (hm : s.sumsMatch) :
    s.hdr.ref.start + sumT s.data = s.hdr.ref.stop ∧ s.hdr.qry.start + sumQ s.data = s.hdr.qry.stop := hm

/-- non-vacuity: a '+'/'-' header with gapped records that add up -/
example : (⟨⟨0, ⟨[97], 4, .pos, 0, 4⟩, ⟨[98], 5, .neg, 0, 5⟩, 1⟩,
           [⟨3, some 0, some 1, .nonterm⟩, ⟨1, none, none, .term⟩]⟩ : Sec).sumsMatch := by
  decide

end CF
