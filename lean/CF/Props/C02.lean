/-
  C02 — Liftover completeness and exact clipping; 'no mapping' iff nothing aligns.
-/
import CF.Lemmas.Refine
namespace CF

/-- The answer is exactly the specification's `hits`: every block on the same reference contig and
    strand that overlaps the interval, restricted to it — once per block, nothing duplicated,
    nothing dropped (a permutation of the hits in file order); `None` exactly when there is none. -/
theorem C02_exact (ls : List Raw) (hv : ∀ r ∈ ls, r.Valid) (ss : List Sec) (hw : WFFile ls ss)
    (m : Machine) (hb : buildL ls = .ok m) (iv : Interval) (hiv : iv.WF) :
    ∃ r, m.liftover iv = .ok r ∧ (r = none ↔ hits ss iv = []) ∧ (∀ ps, r = some ps → ps.Perm (hits ss iv)) := by
  obtain ⟨sel, hp, _, hl⟩ := lift_refines ls hv ss hw m hb iv hiv
  refine ⟨_, hl, ?_, ?_⟩
  · by_cases hs : sel = []
    · subst hs
      simp only [if_true, true_iff]
      unfold hits
      rw [hp.symm.eq_nil]
      rfl
    · simp only [hs, if_false, reduceCtorEq, false_iff]
      intro hh
      unfold hits at hh
      rw [List.map_eq_nil_iff] at hh
      rw [hh] at hp
      exact hs hp.eq_nil
  · intro ps hps
    by_cases hs : sel = []
    · simp only [hs, if_true, reduceCtorEq] at hps
    · simp only [hs, if_false, Option.some.injEq] at hps
      subst hps
      exact hp.map _

/-- what `hits` means: the base pairings of the answer are exactly the aligned pairings whose
    reference base lies in the interval — nothing outside the interval, nothing dropped -/
theorem C02_bases (ls : List Raw) (hv : ∀ r ∈ ls, r.Valid) (ss : List Sec) (hw : WFFile ls ss)
    (m : Machine) (hb : buildL ls = .ok m) (iv : Interval) (hiv : iv.WF) (x y : Base) :
    basePairs (liftL m iv) x y ↔ (Aligned ss x y ∧ iv.hasBase x) :=
  lift_char ls hv ss hw m hb iv hiv x y

/-- 'no mapping' exactly when no base of the interval is aligned — for files without zero-length
    blocks and non-empty intervals -/
theorem C02_none_iff (ls : List Raw) (hv : ∀ r ∈ ls, r.Valid) (ss : List Sec) (hw : WFFile ls ss)
    (hnz : ∀ s ∈ ss, ∀ r ∈ s.data, 0 < r.size)
    (m : Machine) (hb : buildL ls = .ok m) (iv : Interval) (hiv : iv.WF) (hne : iv.lo < iv.hi) :
    m.liftover iv = .ok none ↔ ¬ ∃ x y, Aligned ss x y ∧ iv.hasBase x := by
  obtain ⟨_, _, _, hsec⟩ := C03_machine ls hv ss hw m hb
  rw [lift_none_iff ls hv ss hw m hb iv hiv]
  constructor
  · rintro hh ⟨x, y, hxy⟩
    obtain ⟨p, hp, _⟩ := (lift_char ls hv ss hw m hb iv hiv x y).2 hxy
    rw [(liftL_perm_hits ls hv ss hw m hb iv hiv).mem_iff, hh] at hp
    exact List.not_mem_nil hp
  · intro hno
    rw [List.eq_nil_iff_forall_not_mem]
    intro p hp
    rw [mem_hits] at hp
    obtain ⟨s, hs, b, hb', hh, _⟩ := hp
    apply hno
    have hbd := localBlocks_bounds s (hsec s hs).2 b hb'
    have hr : b.1 + b.2.2 ≤ s.hdr.ref.size := Nat.le_trans hbd.2.1 (hsec s hs).1.1.2.1
    obtain ⟨r, hr', hsz⟩ := localBlocks_size s.data _ _ b hb'
    have hn : 0 < b.2.2 := by rw [hsz]; exact hnz s hs r hr'
    have hhit := (hit_pairOf s b iv).1 hh
    obtain ⟨k, hk, hlo, hhi⟩ := ivOf_overlap_base s.hdr.ref b.1 b.2.2 iv hr hn hne hhit.2.2.1 hhit.2.2.2
    exact ⟨_, _, ⟨s, hs, b, hb', k, hk, rfl, rfl⟩, hhit.1, hhit.2.1, hlo, hhi⟩

/-- an unknown contig has no mapping -/
theorem C02_unknown_contig (ls : List Raw) (hv : ∀ r ∈ ls, r.Valid) (ss : List Sec) (hw : WFFile ls ss)
    (m : Machine) (hb : buildL ls = .ok m) (iv : Interval) (hiv : iv.WF)
    (hu : ∀ s ∈ ss, s.hdr.ref.name ≠ iv.contig) : m.liftover iv = .ok none := by
  rw [lift_none_iff ls hv ss hw m hb iv hiv, List.eq_nil_iff_forall_not_mem]
  intro p hp
  rw [mem_hits] at hp
  obtain ⟨s, hs, b, _, hh, _⟩ := hp
  exact hu s hs ((hit_pairOf s b iv).1 hh).1

/-- an interval on the strand opposite to the reference strand of every chain on its contig has no mapping -/
theorem C02_opposite_strand (ls : List Raw) (hv : ∀ r ∈ ls, r.Valid) (ss : List Sec) (hw : WFFile ls ss)
    (m : Machine) (hb : buildL ls = .ok m) (iv : Interval) (hiv : iv.WF)
    (ho : ∀ s ∈ ss, s.hdr.ref.name = iv.contig → s.hdr.ref.strand ≠ iv.strand) : m.liftover iv = .ok none := by
  rw [lift_none_iff ls hv ss hw m hb iv hiv, List.eq_nil_iff_forall_not_mem]
  intro p hp
  rw [mem_hits] at hp
  obtain ⟨s, hs, b, _, hh, _⟩ := hp
  have hhit := (hit_pairOf s b iv).1 hh
  exact ho s hs hhit.1 hhit.2.1

end CF
