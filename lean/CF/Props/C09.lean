/-
  C09 — Lifting an interval equals lifting its parts, down to single bases.
-/
import CF.Lemmas.Refine
import CF.Lemmas.RefineProps
namespace CF

/-- the single-base interval of a base -/
def Base.iv (x : Base) : Interval := ⟨x.contig, x.strand, x.pos, x.pos + 1⟩

/-- For every file, interval and split point (on a block boundary, inside a gap, anywhere), the base
    pairings obtained by lifting the whole equal the union of those obtained by lifting the parts. -/
theorem C09_split (ls : List Raw) (hv : ∀ r ∈ ls, r.Valid) (ss : List Sec) (hw : WFFile ls ss)
    (m : Machine) (hb : buildL ls = .ok m) (iv : Interval) (hiv : iv.WF) (p : Nat) (h1 : iv.lo ≤ p) (h2 : p ≤ iv.hi)
    (x y : Base) :
    basePairs (liftL m iv) x y ↔
      (basePairs (liftL m ⟨iv.contig, iv.strand, iv.lo, p⟩) x y ∨ basePairs (liftL m ⟨iv.contig, iv.strand, p, iv.hi⟩) x y) := by
  have hw1 : Interval.WF ⟨iv.contig, iv.strand, iv.lo, p⟩ := ⟨h1, Nat.le_trans h2 hiv.2⟩
  have hw2 : Interval.WF ⟨iv.contig, iv.strand, p, iv.hi⟩ := ⟨h2, hiv.2⟩
  rw [lift_char ls hv ss hw m hb iv hiv, lift_char ls hv ss hw m hb _ hw1, lift_char ls hv ss hw m hb _ hw2]
  simp only [Interval.hasBase]
  constructor
  · rintro ⟨ha, hc, hs, hlo, hhi⟩
    by_cases hp : x.pos < p
    · exact Or.inl ⟨ha, hc, hs, hlo, hp⟩
    · exact Or.inr ⟨ha, hc, hs, by omega, hhi⟩
  · rintro (⟨ha, hc, hs, hlo, hhi⟩ | ⟨ha, hc, hs, hlo, hhi⟩)
    · exact ⟨ha, hc, hs, hlo, by omega⟩
    · exact ⟨ha, hc, hs, by omega, hhi⟩

/-- …and therefore the union over its single bases: a position maps identically whether it is asked
    for alone or as part of a larger interval -/
theorem C09_single (ls : List Raw) (hv : ∀ r ∈ ls, r.Valid) (ss : List Sec) (hw : WFFile ls ss)
    (m : Machine) (hb : buildL ls = .ok m) (iv : Interval) (hiv : iv.WF) (x y : Base) :
    basePairs (liftL m iv) x y ↔ (iv.hasBase x ∧ basePairs (liftL m x.iv) x y) := by
  have key : iv.hasBase x → (basePairs (liftL m x.iv) x y ↔ Aligned ss x y) := by
    intro hx
    have hwx : x.iv.WF := by
      obtain ⟨_, _, _, h4⟩ := hx
      have := hiv.2
      refine ⟨?_, ?_⟩ <;> simp only [Base.iv] <;> omega
    rw [lift_char ls hv ss hw m hb x.iv hwx]
    exact ⟨fun h => h.1, fun h => ⟨h, hasBase_self x⟩⟩
  rw [lift_char ls hv ss hw m hb iv hiv]
  constructor
  · rintro ⟨ha, hx⟩
    exact ⟨hx, (key hx).2 ha⟩
  · rintro ⟨hx, hp⟩
    exact ⟨(key hx).1 hp, hx⟩

/-- no pair reaches outside the requested interval -/
theorem C09_inside (ls : List Raw) (hv : ∀ r ∈ ls, r.Valid) (ss : List Sec) (hw : WFFile ls ss)
    (m : Machine) (hb : buildL ls = .ok m) (iv : Interval) (hiv : iv.WF) :
    ∀ p ∈ liftL m iv, p.ref.contig = iv.contig ∧ p.ref.strand = iv.strand ∧ iv.lo ≤ p.ref.lo ∧ p.ref.hi ≤ iv.hi := by
  intro p hp
  obtain ⟨s, _, hsv, hsm, blk, hblk, hh, rfl⟩ := mem_liftL ls hv ss hw m hb iv hiv p hp
  have hwf := (blocks_wf s hsv hsm blk hblk).1
  obtain ⟨hc, hs, hov⟩ := (hit_iff blk iv).1 hh
  obtain ⟨r, q⟩ := blk
  rw [restrict_ref_eq iv r q hwf.1.1 hiv.1 hov]
  simp only at hc hs hov
  refine ⟨hc, hs, ?_, ?_⟩ <;> simp only <;> omega

end CF
