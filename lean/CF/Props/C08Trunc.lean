/-
  C08 — truncation at an arbitrary byte offset of a canonical well-formed file.
-/
import CF.Props.C03
import CF.Props.C08
import CF.Props.C12
import CF.Props.C13
import CF.Props.C14
import CF.Lemmas.Text
import CF.Spec.Canon
import CF.Lemmas.Trunc
import CF.Lemmas.TruncMid
namespace CF

/-- the canonical file is accepted and builds the machine of all its sections -/
theorem C08_canon_accepted (v : List UInt8 → Bool) (hv : ∀ bs, v bs = true) (ss : List Sec) (hc : CanonSecs ss) :
    ∃ m, build v [.chunk (canonBytes ss)] = .ok m ∧ buildSpec (ss.map SpecItem.sec) Machine.empty = .ok m := by
  have hb : canonBytes ss = encLF ((canonLines ss).map printLine) := encodeLines_LF_true _
  have h := raws_enc v (canonLines ss) (canon_good hc) [] (by simp)
  simp only [List.append_nil, hv, if_true] at h
  rw [build_chunk, hb, h]
  obtain ⟨m, hm⟩ := (C03_iff _ (canon_valid hc)).2 ⟨ss, canon_wf hc⟩
  refine ⟨m, hm, ?_⟩
  rw [buildL_eq_buildSpec, specSecs_of_parses (canon_parses ss hc.shape) 1] at hm
  exact hm

/-- **Truncation at any byte offset.** If a canonical well-formed file is cut at any byte offset `k`
    (inside a header field, inside a number, between fields, before or after a line terminator),
    building a machine either fails or yields exactly the machine of a whole-chain prefix of the
    file: an incomplete chain never contributes mappings. Holds for every UTF-8 predicate `v` and
    (by `C12_chunks`) for every way the bytes are delivered. -/
theorem C08_trunc_bytes (v : List UInt8 → Bool) (ss : List Sec) (hc : CanonSecs ss) (k : Nat) :
    (∃ e, build v [.chunk ((canonBytes ss).take k)] = .err e) ∨
    (∃ j m, build v [.chunk ((canonBytes ss).take k)] = .ok m ∧
       buildSpec ((ss.take j).map SpecItem.sec) Machine.empty = .ok m) := by
  have hb : canonBytes ss = encLF ((canonLines ss).map printLine) := encodeLines_LF_true _
  have hg := canon_good hc
  rw [build_chunk, hb]
  rcases take_encLF printLine (canonLines ss) k with ⟨i, hi⟩ | ⟨la, l, lb, p, hl, hp, hpre, hcut⟩
  · -- the cut falls behind a line terminator
    rw [hi]
    have hgi : ∀ l ∈ (canonLines ss).take i, GoodLine l := fun l hl => hg l (List.mem_of_mem_take hl)
    have hcases := raws_enc_cases v _ hgi [] (by simp)
    simp only [List.append_nil, if_true] at hcases
    rcases hcases with hio | heq
    · exact Or.inl (C08_io_refused _ hio)
    · rw [heq, List.map_take]
      exact C08_trunc_lines _ (canon_valid hc) ss (canon_wf hc) i
  · -- the cut falls inside a line, or behind its text and before its terminator
    rw [hcut]
    have hgl : GoodLine l := hg l (by rw [hl]; simp)
    have hlf : LF ∉ p := fun h => hgl.2.1 (hpre.subset h)
    have hga : ∀ x ∈ la, GoodLine x := fun x hx => hg x (by rw [hl]; simp [hx])
    rcases raws_enc_cases v la hga p hlf with hio | heq
    · exact Or.inl (C08_io_refused _ hio)
    · rw [heq]
      simp only [hp, if_false]
      by_cases hw : p = printLine l
      · have hraws : la.map Raw.line ++ [parsedRaw p] =
            ((canonLines ss).map Raw.line).take (la.length + 1) := by
          rw [hw, hl, ← List.map_take, take_length_succ_append]
          simp [parsedRaw, hgl.1]
        rw [hraws]
        exact C08_trunc_lines _ (canon_valid hc) ss (canon_wf hc) (la.length + 1)
      · exact Or.inl (midline_err ss hc la l lb p hl hp hpre hw)

end CF
