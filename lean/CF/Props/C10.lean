/-
  C10 — Exchanging reference and query roles inverts the mapping.
-/
import CF.Lemmas.Refine
import CF.Lemmas.RefineProps
import CF.Props.C09
namespace CF

def Rec.swap (r : Rec) : Rec := { r with dt := r.dq, dq := r.dt }
def Hdr.swap (h : Hdr) : Hdr := { h with ref := h.qry, qry := h.ref }
def Sec.swap (s : Sec) : Sec := ⟨s.hdr.swap, s.data.map Rec.swap⟩
def Line.swap : Line → Line
  | .empty => .empty
  | .header h => .header h.swap
  | .data r => .data r.swap
def Raw.swap : Raw → Raw
  | .line l => .line l.swap
  | x => x

/-! ### helper lemmas on the exchange of roles -/

theorem localBlocks_swap (rs : List Rec) : ∀ t q,
    localBlocks q t (rs.map Rec.swap) = (localBlocks t q rs).map (fun b => (b.2.1, b.1, b.2.2)) := by
  induction rs with
  | nil => intro t q; rfl
  | cons r rs ih =>
    intro t q
    simp only [List.map_cons, localBlocks, Rec.swap, ih]

theorem alignedBy_swap (s : Sec) (b : Nat × Nat × Nat) (x y : Base) :
    AlignedBy s b x y ↔ AlignedBy s.swap (b.2.1, b.1, b.2.2) y x := by
  constructor
  · rintro ⟨k, hk, h1, h2⟩; exact ⟨k, hk, h2, h1⟩
  · rintro ⟨k, hk, h1, h2⟩; exact ⟨k, hk, h2, h1⟩

theorem sumT_swap (rs : List Rec) : sumT (rs.map Rec.swap) = sumQ rs := by
  induction rs with
  | nil => rfl
  | cons r rs ih => simp only [List.map_cons, sumT, sumQ, Rec.swap, ih]

theorem sumQ_swap (rs : List Rec) : sumQ (rs.map Rec.swap) = sumT rs := by
  induction rs with
  | nil => rfl
  | cons r rs ih => simp only [List.map_cons, sumT, sumQ, Rec.swap, ih]

theorem parses_swap {lines : List Line} {ss : List Sec} (hp : Parses lines ss) :
    Parses (lines.map Line.swap) (ss.map Sec.swap) := by
  induction hp with
  | nil => exact Parses.nil
  | blank _ ih => exact Parses.blank ih
  | @sec ls ss h mid last hm hl _ ih =>
    have e1 : (Line.header h :: (mid.map Line.data ++ [.data last] ++ ls)).map Line.swap =
        Line.header h.swap :: ((mid.map Rec.swap).map Line.data ++ [.data last.swap] ++ ls.map Line.swap) := by
      simp only [List.map_cons, List.map_append, List.map_map, List.map_nil, Line.swap]
      rfl
    have e2 : (Sec.mk h (mid ++ [last]) :: ss).map Sec.swap =
        Sec.mk h.swap (mid.map Rec.swap ++ [last.swap]) :: ss.map Sec.swap := by
      simp only [List.map_cons, Sec.swap, List.map_append, List.map_nil]
    rw [e1, e2]
    refine Parses.sec h.swap (mid.map Rec.swap) last.swap ?_ hl ih
    intro r hr
    obtain ⟨r0, hr0, rfl⟩ := List.mem_map.1 hr
    exact hm r0 hr0

/-- specification level: the exchanged file aligns `y` back to `x`, on the strands the original
    chain declares — all four strand combinations -/
theorem C10_swap_aligned (ss : List Sec) (x y : Base) :
    Aligned ss x y ↔ Aligned (ss.map Sec.swap) y x := by
  constructor
  · rintro ⟨s, hs, b, hb, ha⟩
    refine ⟨s.swap, List.mem_map.2 ⟨s, hs, rfl⟩, (b.2.1, b.1, b.2.2), ?_, (alignedBy_swap s b x y).1 ha⟩
    show (b.2.1, b.1, b.2.2) ∈ localBlocks s.hdr.qry.start s.hdr.ref.start (s.data.map Rec.swap)
    rw [localBlocks_swap]
    exact List.mem_map.2 ⟨b, hb, rfl⟩
  · rintro ⟨s', hs', b', hb', ha⟩
    obtain ⟨s, hs, rfl⟩ := List.mem_map.1 hs'
    have hb'' : b' ∈ localBlocks s.hdr.qry.start s.hdr.ref.start (s.data.map Rec.swap) := hb'
    rw [localBlocks_swap] at hb''
    obtain ⟨b, hb, rfl⟩ := List.mem_map.1 hb''
    exact ⟨s, hs, b, hb, (alignedBy_swap s b x y).2 ha⟩

/-- the exchanged file is well-formed exactly when the original is -/
theorem C10_swap_wf (ls : List Raw) (ss : List Sec) :
    WFFile ls ss → WFFile (ls.map Raw.swap) (ss.map Sec.swap) := by
  rintro ⟨lines, hl, hp, hs, hc1, hc2⟩
  refine ⟨lines.map Line.swap, ?_, parses_swap hp, ?_, ?_, ?_⟩
  · rw [hl, List.map_map, List.map_map]
    rfl
  · intro s' hs'
    obtain ⟨s, hs0, rfl⟩ := List.mem_map.1 hs'
    obtain ⟨h1, h2⟩ := hs s hs0
    refine ⟨?_, ?_⟩
    · show s.hdr.qry.start + sumT (s.data.map Rec.swap) = s.hdr.qry.stop
      rw [sumT_swap]; exact h2
    · show s.hdr.ref.start + sumQ (s.data.map Rec.swap) = s.hdr.ref.stop
      rw [sumQ_swap]; exact h1
  · intro s₁' h₁' s₂' h₂'
    obtain ⟨s₁, h₁, rfl⟩ := List.mem_map.1 h₁'
    obtain ⟨s₂, h₂, rfl⟩ := List.mem_map.1 h₂'
    exact hc2 s₁ h₁ s₂ h₂
  · intro s₁' h₁' s₂' h₂'
    obtain ⟨s₁, h₁, rfl⟩ := List.mem_map.1 h₁'
    obtain ⟨s₂, h₂, rfl⟩ := List.mem_map.1 h₂'
    exact hc1 s₁ h₁ s₂ h₂

theorem C10_swap_valid (ls : List Raw) (hv : ∀ r ∈ ls, r.Valid) : ∀ r ∈ ls.map Raw.swap, r.Valid := by
  intro r hr
  obtain ⟨r0, hr0, rfl⟩ := List.mem_map.1 hr
  have h0 := hv r0 hr0
  cases r0 with
  | io => trivial
  | unparsable t => trivial
  | line l =>
    cases l with
    | empty => trivial
    | header h =>
      obtain ⟨a, b, c, d⟩ := h0
      exact ⟨b, a, c, d⟩
    | data r =>
      obtain ⟨a, b, c, d, e⟩ := h0
      exact ⟨b, a, c, e, d⟩

/-- machine level: the machine of the exchanged file exists and maps `y` back to `x` exactly when
    the original maps `x` to `y` -/
theorem C10_machine (ls : List Raw) (hv : ∀ r ∈ ls, r.Valid) (ss : List Sec) (hw : WFFile ls ss)
    (m : Machine) (hb : buildL ls = .ok m) :
    ∃ m', buildL (ls.map Raw.swap) = .ok m' ∧
      ∀ x y : Base, x.pos < U64_MAX → y.pos < U64_MAX →
        (basePairs (liftL m x.iv) x y ↔ basePairs (liftL m' y.iv) y x) := by
  have hw' := C10_swap_wf ls ss hw
  have hv' := C10_swap_valid ls hv
  obtain ⟨m', hb'⟩ := (C03_iff _ hv').2 ⟨_, hw'⟩
  refine ⟨m', hb', ?_⟩
  intro x y hx hy
  have hwx : x.iv.WF := by
    refine ⟨?_, ?_⟩ <;> simp only [Base.iv] <;> omega
  have hwy : y.iv.WF := by
    refine ⟨?_, ?_⟩ <;> simp only [Base.iv] <;> omega
  rw [lift_char ls hv ss hw m hb x.iv hwx, lift_char _ hv' _ hw' m' hb' y.iv hwy]
  constructor
  · rintro ⟨h, _⟩
    exact ⟨(C10_swap_aligned ss x y).1 h, hasBase_self y⟩
  · rintro ⟨h, _⟩
    exact ⟨(C10_swap_aligned ss x y).2 h, hasBase_self x⟩

end CF
