/-
  C08 — Truncated files and failing readers never produce a partial or shifted mapping.

  Reader faults: `C08_interrupt`, `C08_fault_read`, `C08_fault_count` (byte layer, in
  `CF/Lemmas/C08Source.lean`), `C08_io_refused` (builder, in `CF/Props/C03.lean`) and their
  byte-level consequences below. Truncation: proved for cuts at line boundaries
  (`C08_trunc_lines`, in `CF/Props/C03.lean`); the byte-level statement is `C08_trunc_full`,
  see `CF/Props/C08Trunc.lean` for what is proved about it.
-/
import CF.Lemmas.C08Source
import CF.Props.C03
import CF.Props.C14
namespace CF

/-- interrupted reads that are retried do not change the built machine, an error, or anything else -/
theorem C08_interrupt_build (v : List UInt8 → Bool) (s : List Ev) : build v (dropIntr s) = build v s := by
  unfold build
  rw [C08_interrupt]

/-- if the underlying reader fails at any read call the builder returns an error — never a machine,
    never a panic — wherever the failure falls (inside a header field, a number, between lines) -/
theorem C08_fail_never_builds (v : List UInt8 → Bool) (s : List Ev) (hf : Ev.fail ∈ s) :
    ∃ e, build v s = .err e := by
  apply C08_io_refused
  have hc := C08_fault_count v s
  have hpos : 0 < (s.filter (· == Ev.fail)).length := by
    apply List.length_pos_of_mem (a := Ev.fail)
    simp [List.mem_filter, hf]
  rw [← hc] at hpos
  obtain ⟨x, hx⟩ := List.exists_mem_of_length_pos hpos
  rw [List.mem_filter] at hx
  have hxio : x = RawRes.io := by simpa using hx.2
  subst hxio
  exact List.mem_map.mpr ⟨RawRes.io, hx.1, rfl⟩

/-- a failed read surfaces as the I/O error of the section iterator's call in progress -/
theorem C08_fail_sections (it : SecIt) (b : Option (Hdr × List Rec)) (rest : List Raw) :
    (SecIt.go b it (Raw.io :: rest)).1 = .item (.error .io) ∧ (SecIt.go b it (Raw.io :: rest)).2.2 = rest := by
  simp [SecIt.go]

end CF
