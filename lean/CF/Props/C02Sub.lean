/-
  C02 with C09: 'no mapping' is inherited by every part of the request, and a mapping of a part is a
  mapping of the whole.
-/
import CF.Props.C02
import CF.Props.C09Cover
namespace CF

/-- if the whole interval has no mapping then no non-empty part of it has one -/
theorem C02_none_sub (ls : List Raw) (hv : ∀ r ∈ ls, r.Valid) (ss : List Sec) (hw : WFFile ls ss)
    (hnz : ∀ s ∈ ss, ∀ r ∈ s.data, 0 < r.size)
    (m : Machine) (hb : buildL ls = .ok m) (iv sub : Interval) (hiv : iv.WF) (hsub : sub.WF)
    (hne : iv.lo < iv.hi) (hnes : sub.lo < sub.hi)
    (hin : ∀ x : Base, sub.hasBase x → iv.hasBase x)
    (h : m.liftover iv = .ok none) : m.liftover sub = .ok none := by
  rw [C02_none_iff ls hv ss hw hnz m hb iv hiv hne] at h
  rw [C02_none_iff ls hv ss hw hnz m hb sub hsub hnes]
  rintro ⟨x, y, ha, hx⟩
  exact h ⟨x, y, ha, hin x hx⟩

/-- contrapositive reading: a part that maps somewhere forces the whole to map somewhere -/
theorem C02_some_super (ls : List Raw) (hv : ∀ r ∈ ls, r.Valid) (ss : List Sec) (hw : WFFile ls ss)
    (hnz : ∀ s ∈ ss, ∀ r ∈ s.data, 0 < r.size)
    (m : Machine) (hb : buildL ls = .ok m) (iv sub : Interval) (hiv : iv.WF) (hsub : sub.WF)
    (hne : iv.lo < iv.hi) (hnes : sub.lo < sub.hi)
    (hin : ∀ x : Base, sub.hasBase x → iv.hasBase x)
    (h : m.liftover sub ≠ .ok none) : m.liftover iv ≠ .ok none :=
  fun hw' => h (C02_none_sub ls hv ss hw hnz m hb iv sub hiv hsub hne hnes hin hw')

end CF
