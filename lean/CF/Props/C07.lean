/-
  C07 — Iterators are finite and a step-through yields nothing after an error.
  Property theorems only; helper lemmas live in `CF/Lemmas/`.
-/
import CF.Lemmas.Sections
import CF.Lemmas.SectionsBound
import CF.Lemmas.Step
import CF.Lemmas.StepConv
import CF.Model.Ops
import CF.Spec.WF
namespace CF

/-! ### the step-through -/


/-- A step-through yields at most one item per data record plus one, however long the caller keeps
    going (every fuel), from every state of the iterator. -/
theorem C07_step_bound (it : StepIt) (fuel : Nat) : (it.drain fuel).length ≤ it.data.length + 1 := by
  exact StepIt.drain_length_le fuel it

/-- Once a step-through has reported an error it yields nothing further: every later `next()`
    returns `None` and leaves the iterator unchanged. -/
theorem C07_step_fused (it it' : StepIt) (e : StErr) (h : it.next = (some (.error e), it')) :
    it'.errored = true ∧ ∀ it'' : StepIt, it''.errored = true → it''.next = (none, it'') := by
  refine ⟨?_, fun it'' h'' => StepIt.next_errored it'' h''⟩
  rcases StepIt.next_cases it with ⟨it1, hn⟩ | ⟨e1, it1, hn, he, _⟩ | ⟨x, it1, hn, _, _⟩
  · rw [hn] at h; simp at h
  · rw [hn] at h
    simp only [Prod.mk.injEq] at h
    rw [← h.2]; exact he
  · rw [hn] at h; simp at h

/-- In a drain, an error can only be the last item. -/
theorem C07_step_error_last (it : StepIt) (fuel : Nat) (pre post : List Item) (e : StErr)
    (h : it.drain fuel = pre ++ .error e :: post) : post = [] := by
  exact StepIt.drain_error_last fuel it pre post e h

/-- A drain that is given enough fuel ends by itself (`next()` returned `None`), so collecting the
    iterator terminates: more fuel does not produce more items. -/
theorem C07_step_ends (it : StepIt) (fuel : Nat) (hf : it.data.length + 2 ≤ fuel) :
    it.drain fuel = it.drain (it.data.length + 2) := by
  exact StepIt.drain_stable fuel it (it.data.length + 2) hf (Nat.le_refl _)

/-! ### the section iterator and `lines()` -/


/-- The iterator's resting state is `between` after every call, whatever it returned (this is the
    invariant the repaired code restores; `SecIt.new` starts in it). -/
theorem C07_sections_rest_state (ls : List Raw) (it : SecIt) (hst : it.st = .between) :
    (it.next ls).2.1.st = .between := by
  exact (go_spec ls none it (by simp [Inv, hst])).2.1

/-- Draining the section iterator — every history of `next()` calls, also past errors — yields at
    most one item per input line plus one, and then ends (`None`). -/
theorem C07_sections_bound (ls : List Raw) (it : SecIt) (hst : it.st = .between) (fuel : Nat)
    (hf : ls.length + 2 ≤ fuel) :
    (SecIt.drain fuel it ls).getLast? = some .done ∧
    ((SecIt.drain fuel it ls).filter (fun x => match x with | .item _ => true | _ => false)).length ≤ ls.length + 1 := by
  have hb := drain_bound ls it fuel hst hf
  have := drain_items_bound ls it fuel hst
  rw [filter_isItem _ (fun x => by cases x <;> rfl)]
  exact ⟨hb.2.1, this⟩

/-- …for every fuel (the caller may stop early): never more than `lines + 1` items. -/
theorem C07_sections_bound_any (ls : List Raw) (it : SecIt) (hst : it.st = .between) (fuel : Nat) :
    ((SecIt.drain fuel it ls).filter (fun x => match x with | .item _ => true | _ => false)).length ≤ ls.length + 1 := by
  rw [filter_isItem _ (fun x => by cases x <;> rfl)]
  exact drain_items_bound ls it fuel hst

/-- at end of input `None` is sticky -/
theorem C07_sections_done_sticky (it : SecIt) (hst : it.st = .between) :
    (it.next []).1 = .done ∧ (it.next []).2.1.st = .between ∧ (it.next []).2.2 = [] := by
  rcases it with ⟨st, n⟩
  simp only at hst
  subst hst
  simp [SecIt.next, SecIt.go]

/-- `lines()`: at most one item per remaining line; every call that yields an item consumes a line -/
theorem C07_lines_bound (k : Nat) (rs : List RawRes) :
    ((linesNext k rs).1.filter Option.isSome).length ≤ rs.length ∧
    (linesNext k rs).2.length + ((linesNext k rs).1.filter Option.isSome).length = rs.length := by
  have := linesNext_count k rs
  exact ⟨by omega, this⟩

end CF
