/-
  C01 — Liftover soundness: every returned base pairing is a true chain alignment.
-/
import CF.Lemmas.Refine
namespace CF

/-- For every well-formed file and every interval — before, after, or past the end of the contig,
    on either strand, of any length, any magnitude up to u64::MAX — each returned pair is
    contiguous and equal-length, lies on the requested contig and strand, and its `k`-th reference
    base (counted in strand direction) is aligned by ONE block of ONE chain of the file to its
    `k`-th query base, on the query contig and strand that chain declares, minus-strand positions
    being converted with `forward = size − 1 − local`. -/
theorem C01_sound (ls : List Raw) (hv : ∀ r ∈ ls, r.Valid) (ss : List Sec) (hw : WFFile ls ss)
    (m : Machine) (hb : buildL ls = .ok m) (iv : Interval) (hiv : iv.WF) (ps : List Pair)
    (hl : m.liftover iv = .ok (some ps)) :
    ∀ p ∈ ps, p.ref.count = p.qry.count ∧ p.ref.contig = iv.contig ∧ p.ref.strand = iv.strand ∧
      ∃ s ∈ ss, ∃ b ∈ localBlocks s.hdr.ref.start s.hdr.qry.start s.data,
        p.qry.contig = s.hdr.qry.name ∧ p.qry.strand = s.hdr.qry.strand ∧
        ∀ k, k < p.ref.count → AlignedBy s b (p.ref.base k) (p.qry.base k) := by
  obtain ⟨_, _, _, hsec⟩ := C03_machine ls hv ss hw m hb
  have hperm := liftL_perm_hits ls hv ss hw m hb iv hiv
  have hL : liftL m iv = ps := by unfold liftL; rw [hl]
  rw [hL] at hperm
  intro p hp
  rw [hperm.mem_iff, mem_hits] at hp
  obtain ⟨s, hs, b, hb', hh, rfl⟩ := hp
  obtain ⟨o1, o2, h12, h2n, hr, hq, he, _⟩ :=
    restrict_pairOf s (hsec s hs).1 (hsec s hs).2 b hb' iv hiv hh
  have hhit := (hit_pairOf s b iv).1 hh
  rw [he]
  have cr := ivOf_sub_contig s.hdr.ref b.1 b.2.2 o1 o2
  have cq := ivOf_sub_contig s.hdr.qry b.2.1 b.2.2 o1 o2
  simp only [ivOf_sub_count s.hdr.ref b.1 b.2.2 o1 o2 hr h12 h2n,
    ivOf_sub_count s.hdr.qry b.2.1 b.2.2 o1 o2 hq h12 h2n, ivOf_sub_base]
  refine ⟨trivial, cr.1.trans hhit.1, cr.2.trans hhit.2.1, s, hs, b, hb', cq.1, cq.2, ?_⟩
  intro k hk
  exact ⟨o1 + k, by omega, rfl, rfl⟩

/-- no returned base pairing is absent from the file's alignment relation -/
theorem C01_no_spurious (ls : List Raw) (hv : ∀ r ∈ ls, r.Valid) (ss : List Sec) (hw : WFFile ls ss)
    (m : Machine) (hb : buildL ls = .ok m) (iv : Interval) (hiv : iv.WF) (x y : Base) :
    basePairs (liftL m iv) x y → Aligned ss x y := by
  intro h
  exact ((lift_char ls hv ss hw m hb iv hiv x y).1 h).1

/-- the builder's answer is never an error and never a panic -/
theorem C01_total (ls : List Raw) (hv : ∀ r ∈ ls, r.Valid) (ss : List Sec) (hw : WFFile ls ss)
    (m : Machine) (hb : buildL ls = .ok m) (iv : Interval) (hiv : iv.WF) :
    ∃ r, m.liftover iv = .ok r := by
  obtain ⟨sel, _, _, hl⟩ := lift_refines ls hv ss hw m hb iv hiv
  exact ⟨_, hl⟩

end CF
