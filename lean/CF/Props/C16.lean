/-
  C16 — Chromosome dictionaries mirror the headers; returned coordinates stay in bounds.
-/
import CF.Lemmas.Refine
import CF.Lemmas.RefineProps
namespace CF

/-- A built machine reports exactly the reference contigs and exactly the query contigs named in the
    file's headers, each with its declared size, never swapped between the two sides; each name
    has one size. -/
theorem C16_dicts (ls : List Raw) (hv : ∀ r ∈ ls, r.Valid) (ss : List Sec) (hw : WFFile ls ss)
    (m : Machine) (hb : buildL ls = .ok m) :
    (∀ x y, (x, y) ∈ m.refDict ↔ ∃ s ∈ ss, s.hdr.ref.name = x ∧ s.hdr.ref.size = y) ∧
    (∀ x y, (x, y) ∈ m.qryDict ↔ ∃ s ∈ ss, s.hdr.qry.name = x ∧ s.hdr.qry.size = y) ∧
    (∀ x y y', (x, y) ∈ m.refDict → (x, y') ∈ m.refDict → y = y') ∧
    (∀ x y y', (x, y) ∈ m.qryDict → (x, y') ∈ m.qryDict → y = y') := by
  obtain ⟨_, hr, hq, _⟩ := C03_machine ls hv ss hw m hb
  obtain ⟨_, _, _, _, hc1, hc2⟩ := hw
  refine ⟨hr, hq, ?_, ?_⟩
  · intro x y y' h h'
    obtain ⟨s, hs, rfl, rfl⟩ := (hr _ _).1 h
    obtain ⟨s', hs', hn, rfl⟩ := (hr _ _).1 h'
    exact hc1 s hs s' hs' hn.symm
  · intro x y y' h h'
    obtain ⟨s, hs, rfl, rfl⟩ := (hq _ _).1 h
    obtain ⟨s', hs', hn, rfl⟩ := (hq _ _).1 h'
    exact hc2 s hs s' hs' hn.symm

/-- every coordinate the machine returns lies between 0 and the reported size of its contig -/
theorem C16_bounds (ls : List Raw) (hv : ∀ r ∈ ls, r.Valid) (ss : List Sec) (hw : WFFile ls ss)
    (m : Machine) (hb : buildL ls = .ok m) (iv : Interval) (hiv : iv.WF) :
    ∀ p ∈ liftL m iv,
      (∃ size, (p.ref.contig, size) ∈ m.refDict ∧ p.ref.lo ≤ p.ref.hi ∧ p.ref.hi ≤ size) ∧
      (∃ size, (p.qry.contig, size) ∈ m.qryDict ∧ p.qry.lo ≤ p.qry.hi ∧ p.qry.hi ≤ size) := by
  intro p hp
  obtain ⟨_, hr, hq, _⟩ := C03_machine ls hv ss hw m hb
  obtain ⟨s, hs, hsv, hsm, blk, hblk, hh, rfl⟩ := mem_liftL ls hv ss hw m hb iv hiv p hp
  obtain ⟨hwf, hrc, _, hqc, _, hrs, hqs⟩ := blocks_wf s hsv hsm blk hblk
  obtain ⟨_, _, hov⟩ := (hit_iff blk iv).1 hh
  obtain ⟨q1, _, q3, q4, q5⟩ := restrict_qry_bounds iv blk hwf hiv.1 hov
  constructor
  · refine ⟨s.hdr.ref.size, (hr _ _).2 ⟨s, hs, ?_, rfl⟩, ?_⟩
    · obtain ⟨r, q⟩ := blk
      rw [restrict_ref_eq iv r q hwf.1.1 hiv.1 hov]
      exact hrc.symm
    · obtain ⟨r, q⟩ := blk
      rw [restrict_ref_eq iv r q hwf.1.1 hiv.1 hov]
      have hw1 := hwf.1.1
      have hw2 := hiv.1
      simp only at hov hrs hw1 ⊢
      refine ⟨?_, ?_⟩ <;> omega
  · refine ⟨s.hdr.qry.size, (hq _ _).2 ⟨s, hs, ?_, rfl⟩, q4, Nat.le_trans q5 hqs⟩
    rw [q1]; exact hqc.symm

/-- a file that declares one contig with two different sizes (on one side) never yields a machine:
    it is refused with an error -/
theorem C16_conflict (ls : List Raw) (hv : ∀ r ∈ ls, r.Valid) (lines : List Line) (ss : List Sec)
    (hl : ls = lines.map Raw.line) (hp : Parses lines ss) (hc : ¬ noConflict ss) :
    ∃ e, buildL ls = .err e := by
  apply C03_refuse ls hv
  rintro ⟨ss', lines', hl', hp', _, hc'⟩
  have h1 := specSecs_of_parses hp 1
  have h2 := specSecs_of_parses hp' 1
  rw [← hl] at h1
  rw [← hl'] at h2
  have heq := map_sec_inj ss ss' (h1.symm.trans h2)
  exact hc (heq ▸ hc')

end CF
