/-
  Byte-level corollaries: the property theorems restated for `build v src` on an arbitrary scripted
  byte source, with the validity hypothesis discharged by `C14_raw`, and the file-level round trip
  of C13.
-/
import CF.Props.C01
import CF.Props.C02
import CF.Props.C06
import CF.Props.C12
import CF.Props.C16
import CF.Props.C08Trunc
import CF.Lemmas.BytesAux
namespace CF

/-- the stream of read results of a byte source, as the section iterator sees it -/
def rawsOf (v : List UInt8 → Bool) (src : List Ev) : List Raw := (rawLines v src).map Raw.ofRes

/-- every read result of every byte source is valid (no hypothesis) -/
theorem rawsOf_valid (v : List UInt8 → Bool) (src : List Ev) : ∀ r ∈ rawsOf v src, r.Valid := by
  intro r hr
  obtain ⟨x, _, rfl⟩ := List.mem_map.1 hr
  exact C14_raw x

/-- C03 for bytes: a machine is built from a byte stream exactly when it is a well-formed chain file -/
theorem C03_iff_bytes (v : List UInt8 → Bool) (src : List Ev) :
    (∃ m, build v src = .ok m) ↔ ∃ ss, WFFile (rawsOf v src) ss := by
  exact C03_iff (rawsOf v src) (rawsOf_valid v src)

/-- C03 for bytes: otherwise it is refused with an error — never a panic, never a partial machine -/
theorem C03_refuse_bytes (v : List UInt8 → Bool) (src : List Ev) (hn : ¬ ∃ ss, WFFile (rawsOf v src) ss) :
    ∃ e, build v src = .err e := by
  exact C03_refuse (rawsOf v src) (rawsOf_valid v src) hn

/-- C01 + C02 + C09 for bytes: the base pairings of every answer of every machine built from bytes
    are exactly the file's aligned pairings whose reference base lies in the interval -/
theorem lift_char_bytes (v : List UInt8 → Bool) (src : List Ev) (m : Machine) (hb : build v src = .ok m)
    (iv : Interval) (hiv : iv.WF) :
    ∃ ss, WFFile (rawsOf v src) ss ∧ ∀ x y, basePairs (liftL m iv) x y ↔ (Aligned ss x y ∧ iv.hasBase x) := by
  obtain ⟨ss, hw⟩ := (C03_iff_bytes v src).1 ⟨m, hb⟩
  exact ⟨ss, hw, fun x y => lift_char (rawsOf v src) (rawsOf_valid v src) ss hw m hb iv hiv x y⟩

/-- C02 for bytes: the answer is a permutation of the specification's hits; `None` iff there are none -/
theorem C02_exact_bytes (v : List UInt8 → Bool) (src : List Ev) (m : Machine) (hb : build v src = .ok m)
    (iv : Interval) (hiv : iv.WF) :
    ∃ ss, WFFile (rawsOf v src) ss ∧
      ∃ r, m.liftover iv = .ok r ∧ (r = none ↔ hits ss iv = []) ∧ (∀ ps, r = some ps → ps.Perm (hits ss iv)) := by
  obtain ⟨ss, hw⟩ := (C03_iff_bytes v src).1 ⟨m, hb⟩
  exact ⟨ss, hw, C02_exact (rawsOf v src) (rawsOf_valid v src) ss hw m hb iv hiv⟩

/-- C12 for the machine: the built machine (or the error) does not depend on how the bytes are chunked -/
theorem C12_build_chunks (v : List UInt8 → Bool) (s₁ s₂ : List Ev) (h₁ : chunkOnly s₁) (h₂ : chunkOnly s₂)
    (hb : bytesOf s₁ = bytesOf s₂) : build v s₁ = build v s₂ := by
  unfold build
  rw [C12_chunks v s₁ s₂ h₁ h₂ hb]

/-- the texts of the lines read from a byte source contain no LF -/
theorem rawLines_no_LF (v : List UInt8 → Bool) (src : List Ev) (hc : chunkOnly src) :
    ∀ n t, RawRes.line n t ∈ rawLines v src → LF ∉ t := by
  intro n t h
  rw [C12_lines_spec v src hc] at h
  exact linesOfBytes_no_LF v (bytesOf src) n t h

/-- **C13, whole files.** Re-serialising all sections of an accepted file canonically (header line, data
    lines, blank line; LF endings; numerals as `Display` prints them) yields a file that is accepted
    and builds the SAME machine — hence identical answers to every query. (`hv`: the reader's UTF-8
    check accepts the re-serialised lines, as it does for every printed line when the original names
    were UTF-8.) -/
theorem C13_file (v : List UInt8 → Bool) (hv : ∀ bs, v bs = true) (src : List Ev) (hc : chunkOnly src)
    (m : Machine) (hb : build v src = .ok m) :
    ∃ ss, WFFile (rawsOf v src) ss ∧ build v [.chunk (canonBytes ss)] = .ok m := by
  obtain ⟨ss, hw⟩ := (C03_iff_bytes v src).1 ⟨m, hb⟩
  refine ⟨ss, hw, ?_⟩
  have hcw : CanonSecsW ss := wf_canonW v src hc ss hw
  have hraws := canonW_raws v hv hcw
  obtain ⟨m', hm'⟩ := (C03_iff _ (canonW_valid hcw)).2 ⟨ss, canonW_wf hcw⟩
  have hbc : build v [.chunk (canonBytes ss)] = .ok m' := by
    unfold build
    rw [hraws]
    exact hm'
  rw [buildL_eq_buildSpec, specSecs_of_parses (canon_parses ss hcw.shape) 1] at hm'
  obtain ⟨lines, hl, hp, _, _⟩ := hw
  have hb' : buildL (rawsOf v src) = .ok m := hb
  rw [buildL_eq_buildSpec, hl, specSecs_of_parses hp 1, hm'] at hb'
  rw [hbc]
  exact hb'

/-- …and it parses to equal sections -/
theorem C13_file_sections (v : List UInt8 → Bool) (hv : ∀ bs, v bs = true) (src : List Ev) (hc : chunkOnly src)
    (m : Machine) (hb : build v src = .ok m) :
    ∃ ss, WFFile (rawsOf v src) ss ∧ WFFile (rawsOf v [.chunk (canonBytes ss)]) ss := by
  obtain ⟨ss, hw⟩ := (C03_iff_bytes v src).1 ⟨m, hb⟩
  refine ⟨ss, hw, ?_⟩
  have hcw : CanonSecsW ss := wf_canonW v src hc ss hw
  have hraws : rawsOf v [.chunk (canonBytes ss)] = (canonLines ss).map Raw.line := canonW_raws v hv hcw
  rw [hraws]
  exact canonW_wf hcw

end CF
