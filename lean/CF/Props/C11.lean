/-
  C11 — Chains act independently; results are deterministic and ordered.
-/
import CF.Lemmas.Refine
import CF.Lemmas.RefineProps
namespace CF

/-- the specification's answer is additive in the chains -/
theorem C11_hits_append (ss₁ ss₂ : List Sec) (iv : Interval) : hits (ss₁ ++ ss₂) iv = hits ss₁ iv ++ hits ss₂ iv := by
  simp only [hits, fileBlocks, List.flatMap_append, List.filter_append, List.map_append]

theorem C11_hits_perm (ss ss' : List Sec) (h : ss.Perm ss') (iv : Interval) : (hits ss iv).Perm (hits ss' iv) := by
  exact ((h.flatMap_right Sec.blocks).filter _).map _

/-- **Independence.** If the chains of a file are, in any order, those of two other files, the answer
    over the file is the multiset union of the answers over the two — so reordering chains, or
    splitting a file chain by chain, never changes what a given chain contributes. -/
theorem C11_union (ls ls₁ ls₂ : List Raw) (hv : ∀ r ∈ ls, r.Valid) (hv₁ : ∀ r ∈ ls₁, r.Valid) (hv₂ : ∀ r ∈ ls₂, r.Valid)
    (ss ss₁ ss₂ : List Sec) (hw : WFFile ls ss) (hw₁ : WFFile ls₁ ss₁) (hw₂ : WFFile ls₂ ss₂)
    (hp : ss.Perm (ss₁ ++ ss₂))
    (m m₁ m₂ : Machine) (hb : buildL ls = .ok m) (hb₁ : buildL ls₁ = .ok m₁) (hb₂ : buildL ls₂ = .ok m₂)
    (iv : Interval) (hiv : iv.WF) :
    (liftL m iv).Perm (liftL m₁ iv ++ liftL m₂ iv) := by
  have h := liftL_perm_hits ls hv ss hw m hb iv hiv
  have h₁ := liftL_perm_hits ls₁ hv₁ ss₁ hw₁ m₁ hb₁ iv hiv
  have h₂ := liftL_perm_hits ls₂ hv₂ ss₂ hw₂ m₂ hb₂ iv hiv
  refine h.trans ((C11_hits_perm ss _ hp iv).trans ?_)
  rw [C11_hits_append]
  exact (h₁.append h₂).symm

/-- chains on other contigs or strands contribute nothing -/
theorem C11_other (ss : List Sec) (iv : Interval)
    (ho : ∀ s ∈ ss, s.hdr.ref.name ≠ iv.contig ∨ s.hdr.ref.strand ≠ iv.strand) : hits ss iv = [] := by
  simp only [hits, List.map_eq_nil_iff, List.filter_eq_nil_iff, fileBlocks, List.mem_flatMap]
  rintro blk ⟨s, hs, hblk⟩ hh
  rw [blocks_eq_local, List.mem_map] at hblk
  obtain ⟨b, _, rfl⟩ := hblk
  obtain ⟨hc, hst, _⟩ := (hit_iff _ iv).1 hh
  simp only [Seq.ivOf] at hc hst
  rcases ho s hs with h | h
  · exact h hc
  · exact h hst

/-- **Order.** The pairs of one answer are ordered by non-decreasing forward start of their
    reference interval. -/
theorem C11_sorted (ls : List Raw) (hv : ∀ r ∈ ls, r.Valid) (ss : List Sec) (hw : WFFile ls ss)
    (m : Machine) (hb : buildL ls = .ok m) (iv : Interval) (hiv : iv.WF) :
    (liftL m iv).Pairwise (fun a b => a.ref.lo ≤ b.ref.lo) := by
  obtain ⟨sel, hperm, hsorted, hlift⟩ := lift_refines ls hv ss hw m hb iv hiv
  have hm := (C03_machine ls hv ss hw m hb).2.2.2
  have hL : liftL m iv = sel.map (restrict iv) := by
    unfold liftL
    rw [hlift]
    by_cases hsel : sel = []
    · simp [hsel]
    · simp [hsel]
  rw [hL, List.pairwise_map]
  have hmem : ∀ a ∈ sel, a.ref.lo ≤ a.ref.hi ∧ a.ref.lo < iv.hi ∧ a.ref.hi > iv.lo := by
    intro a ha
    have ha' := hperm.mem_iff.1 ha
    simp only [List.mem_filter, fileBlocks, List.mem_flatMap] at ha'
    obtain ⟨⟨s, hs, hblk⟩, hh⟩ := ha'
    have hwf := (blocks_wf s (hm s hs).1 (hm s hs).2 a hblk).1
    obtain ⟨_, _, hov⟩ := (hit_iff a iv).1 hh
    exact ⟨hwf.1.1, hov⟩
  refine List.Pairwise.imp_of_mem ?_ hsorted
  intro a b ha hb hab
  obtain ⟨ha1, ha2⟩ := hmem a ha
  obtain ⟨hb1, hb2⟩ := hmem b hb
  obtain ⟨ar, aq⟩ := a
  obtain ⟨br, bq⟩ := b
  rw [restrict_ref_eq iv ar aq ha1 hiv.1 ha2, restrict_ref_eq iv br bq hb1 hiv.1 hb2]
  simp only at hab ⊢
  omega

/-- **Determinism** of the model: the machine and every answer are functions of the stream. -/
theorem C11_deterministic (ls : List Raw) (m m' : Machine) (h : buildL ls = .ok m) (h' : buildL ls = .ok m') : m = m' := by
  have := h.symm.trans h'
  simpa only [Out.ok.injEq] using this

end CF
