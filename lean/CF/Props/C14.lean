/-
  C14 — Record validation invariants and strand-aware sequence-to-interval conversion.
  Property theorems only.
-/
import CF.Spec.WF
import CF.Lemmas.Record
namespace CF

/-- the public sequence constructor accepts only `start ≤ end` and u64 numbers -/
theorem C14_ofParts (name size strand start stop : List UInt8) (s : Seq)
    (h : Seq.ofParts name size strand start stop = .ok s) :
    s.name = name ∧ s.start ≤ s.stop ∧ s.size ≤ U64_MAX ∧ s.start ≤ U64_MAX ∧ s.stop ≤ U64_MAX ∧
    Strand.parse strand = some s.strand := by
  obtain ⟨h0, h1, h2, h3, h4, h5⟩ := Seq.ofParts_inv h
  exact ⟨h0, h5, parseU64_le h1, parseU64_le h3, parseU64_le h4, h2⟩

/-- every accepted header has (a '+' or '-' strand by type, and) `0 ≤ start ≤ end ≤ size` on both
    sides, all numbers u64 -/
theorem C14_header (t : List UInt8) (h : Hdr) (hp : Hdr.parse t = .ok h) : h.Valid := by
  obtain ⟨p1, p2, p3, p4, p5, p6, p7, p8, p9, p10, p11, p12, hs, hsc, hr, hq, hid, h1, h2⟩ :=
    Hdr.parse_inv hp
  obtain ⟨_, r1, _, _, _, r5⟩ := Seq.ofParts_inv hr
  obtain ⟨_, q1, _, _, _, q5⟩ := Seq.ofParts_inv hq
  exact ⟨⟨r5, h1, parseU64_le r1⟩, ⟨q5, h2, parseU64_le q1⟩, parseU64_le hsc, parseU64_le hid⟩

/-- contig names of an accepted header contain no space (they are fields of a split on ' ') -/
theorem C14_header_names (t : List UInt8) (h : Hdr) (hp : Hdr.parse t = .ok h) :
    SP ∉ h.ref.name ∧ SP ∉ h.qry.name := by
  obtain ⟨p1, p2, p3, p4, p5, p6, p7, p8, p9, p10, p11, p12, hs, hsc, hr, hq, hid, h1, h2⟩ :=
    Hdr.parse_inv hp
  obtain ⟨r0, _⟩ := Seq.ofParts_inv hr
  obtain ⟨q0, _⟩ := Seq.ofParts_inv hq
  have hm := splitOn_no_sep SP t
  rw [hs] at hm
  rw [r0, q0]
  exact ⟨hm p2 (by simp), hm p7 (by simp)⟩

/-- every accepted data record carries gap values exactly when it is non-terminating, its kind
    fixed by its field count (3 or 1) -/
theorem C14_record_parse (t : List UInt8) (r : Rec) (hp : Rec.parse t = .ok r) :
    r.Valid ∧ (r.kind = .term ↔ (splitOn TAB t).length = 1) ∧ (r.kind = .nonterm ↔ (splitOn TAB t).length = 3) := by
  rcases Rec.parse_inv hp with ⟨p0, hs, hsz, hdt, hdq, hk⟩ | ⟨p0, p1, p2, dt, dq, hs, hsz, hdt', hdq', hdt, hdq, hk⟩
  · refine ⟨⟨?_, ?_, parseU64_le hsz, ?_, ?_⟩, ?_, ?_⟩ <;> simp [hs, hdt, hdq, hk]
  · refine ⟨⟨?_, ?_, parseU64_le hsz, ?_, ?_⟩, ?_, ?_⟩ <;>
      simp [hs, hdt, hdq, hk, parseU64_le hdt', parseU64_le hdq']

/-- the public record constructor: accepted iff gaps are present exactly on a non-terminating record -/
theorem C14_record_new (size : Nat) (dt dq : Option Nat) (kind : Kind) :
    (∃ r, Rec.tryNew size dt dq kind = .ok r) ↔
      ((kind = .nonterm ∧ dt.isSome ∧ dq.isSome) ∨ (kind = .term ∧ dt.isNone ∧ dq.isNone)) := by
  cases kind <;> cases dt <;> cases dq <;> simp [Rec.tryNew]

theorem C14_record_new_eq (size : Nat) (dt dq : Option Nat) (kind : Kind) (r : Rec)
    (h : Rec.tryNew size dt dq kind = .ok r) : r = ⟨size, dt, dq, kind⟩ := by
  exact (Rec.tryNew_inv h).1

/-- every parsed line is valid (what the section iterator and the step-through may rely on) -/
theorem C14_line (t : List UInt8) (l : Line) (hp : Line.parse t = .ok l) : l.Valid := by
  unfold Line.parse at hp
  split at hp
  · simp only [Except.ok.injEq] at hp; subst hp; trivial
  · split at hp
    · cases hh : Hdr.parse t with
      | error e => rw [hh] at hp; simp at hp
      | ok h =>
        rw [hh] at hp
        simp only [Except.ok.injEq] at hp; subst hp
        exact C14_header t h hh
    · cases hr : Rec.parse t with
      | error e => rw [hr] at hp; simp at hp
      | ok r =>
        rw [hr] at hp
        simp only [Except.ok.injEq] at hp; subst hp
        exact (C14_record_parse t r hr).1

theorem C14_raw (r : RawRes) : (Raw.ofRes r).Valid := by
  cases r with
  | io => trivial
  | utf8 => trivial
  | line n text =>
    cases hl : Line.parse text with
    | error e => simp only [Raw.ofRes, hl]; trivial
    | ok l => simp only [Raw.ofRes, hl]; exact C14_line text l hl

/-- a sequence with `end ≤ size` converts to an interval of `end − start` bases running from
    `start` to `end` on '+' and from `size − start` down to `size − end` on '-' -/
theorem C14_interval_in (s : Seq) (h1 : s.start ≤ s.stop) (h2 : s.stop ≤ s.size) :
    ∃ iv, s.interval = .ok iv ∧ iv.contig = s.name ∧ iv.strand = s.strand ∧ iv.count = s.stop - s.start ∧
      (s.strand = .pos → iv.start.pos = s.start ∧ iv.stop.pos = s.stop) ∧
      (s.strand = .neg → iv.start.pos = s.size - s.start ∧ iv.stop.pos = s.size - s.stop) := by
  obtain ⟨name, size, strand, start, stop⟩ := s
  simp only at h1 h2
  cases strand with
  | pos =>
    refine ⟨⟨name, .pos, start, stop⟩, ?_, rfl, rfl, rfl, ?_, ?_⟩
    · simp only [Seq.interval, Interval.tryNew, Except.mapError, ne_eq, not_true_eq_false, if_false]
      rw [if_neg (by omega)]
    · intro _; exact ⟨rfl, rfl⟩
    · intro h; cases h
  | neg =>
    refine ⟨⟨name, .neg, size - stop, size - start⟩, ?_, rfl, rfl, ?_, ?_, ?_⟩
    · have h3 : start ≤ size := by omega
      simp only [Seq.interval, Interval.tryNew, Except.mapError, ne_eq, not_true_eq_false, if_false,
        h2, h3, and_self, if_true]
      rw [if_neg (by omega)]
    · simp only [Interval.count]; omega
    · intro h; cases h
    · intro _; exact ⟨rfl, rfl⟩

/-- one whose end exceeds its size is never turned into wrapped coordinates or a panic: it yields an
    error on '-', and on '+', where the size is not needed, the literal `start..end` interval -/
theorem C14_interval_out (s : Seq) (h1 : s.start ≤ s.stop) (h2 : s.size < s.stop) :
    (s.strand = .pos → s.interval = .ok ⟨s.name, .pos, s.start, s.stop⟩) ∧
    (s.strand = .neg → s.interval = .error (.interval .outOfBounds)) := by
  obtain ⟨name, size, strand, start, stop⟩ := s
  simp only at h1 h2
  constructor
  · intro h; simp only at h; subst h
    simp only [Seq.interval, Interval.tryNew, Except.mapError, ne_eq, not_true_eq_false, if_false]
    rw [if_neg (by omega)]
  · intro h; simp only at h; subst h
    simp [Seq.interval]
    intro _; omega

/-- printing a valid record never reaches the two `expect`s (C06, `Display` part) -/
theorem C14_print_no_panic (r : Rec) (hv : r.Valid) : ∃ bs, r.print = .ok bs := by
  obtain ⟨size, dt, dq, kind⟩ := r
  obtain ⟨h1, h2, _⟩ := hv
  simp only at h1 h2
  cases kind with
  | term => exact ⟨_, rfl⟩
  | nonterm =>
    cases dt with
    | none => simp at h1
    | some dt =>
      cases dq with
      | none => simp at h2
      | some dq => exact ⟨_, rfl⟩

/-- non-vacuity: `chain 0 a 4 + 0 4 b 5 - 0 5 1` is accepted -/
example : (match Hdr.parse [99, 104, 97, 105, 110, 32, 48, 32, 97, 32, 52, 32, 43, 32, 48, 32, 52, 32, 98, 32, 53, 32, 45, 32, 48, 32, 53, 32, 49] with
    | .ok h => h == ⟨0, ⟨[97], 4, .pos, 0, 4⟩, ⟨[98], 5, .neg, 0, 5⟩, 1⟩
    | .error _ => false) = true := by decide

end CF
