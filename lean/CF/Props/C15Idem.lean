/-
  Clamping is idempotent: clamping the result of a clamp once more to the same operand returns it
  unchanged; in particular every pair a machine returns is a fixed point of clamping to the request.
-/
import CF.Props.C15Then
namespace CF

/-- restricting a well-formed pair to the whole of its own reference interval changes nothing -/
theorem sub_full (q : Pair) (hq : q.WF) :
    q.sub (min (q.ref.offOf q.ref.lo) (q.ref.offOf q.ref.hi))
          (max (q.ref.offOf q.ref.lo) (q.ref.offOf q.ref.hi)) = q := by
  obtain ⟨⟨r1, r2⟩, ⟨q1, q2⟩, hcnt⟩ := hq
  rcases q with ⟨⟨rcn, rst, rlo, rhi⟩, ⟨qcn, qst, qlo, qhi⟩⟩
  simp only [Interval.count] at *
  cases rst <;> cases qst <;>
    simp only [Pair.sub, Interval.sub, Interval.offOf, Pair.mk.injEq, Interval.mk.injEq, true_and] <;>
    omega

/-- a well-formed pair whose reference interval lies inside the operand (same contig and strand) is a
    fixed point of `clamp` -/
theorem clamp_fix (q : Pair) (iv : Interval) (hq : q.WF) (hiv : iv.WF)
    (hc : q.ref.contig = iv.contig) (hs : q.ref.strand = iv.strand)
    (h1 : iv.lo ≤ q.ref.lo) (h2 : q.ref.hi ≤ iv.hi) : q.clamp iv = .ok q := by
  have hlo : max q.ref.lo iv.lo = q.ref.lo := Nat.max_eq_left h1
  have hhi : min q.ref.hi iv.hi = q.ref.hi := Nat.min_eq_left h2
  have hmeet : max q.ref.lo iv.lo ≤ min q.ref.hi iv.hi := by rw [hlo, hhi]; exact hq.1.1
  have h := C15_clamp q iv hq hiv hc hs hmeet
  rw [hlo, hhi, sub_full q hq] at h
  exact h

theorem C15_clamp_idem (p : Pair) (iv : Interval) (hp : p.WF) (hiv : iv.WF) (p' : Pair)
    (h : p.clamp iv = .ok p') : p'.clamp iv = .ok p' := by
  by_cases hc : p.ref.contig = iv.contig
  · by_cases hs : p.ref.strand = iv.strand
    · by_cases hmeet : max p.ref.lo iv.lo ≤ min p.ref.hi iv.hi
      · rw [C15_clamp p iv hp hiv hc hs hmeet] at h
        obtain ⟨hwf, href⟩ := sub_range_wf p hp _ _ (Nat.le_max_left _ _) hmeet (Nat.min_le_left _ _)
        cases h
        refine clamp_fix _ iv hwf hiv ?_ ?_ ?_ ?_
        · rw [href]; exact hc
        · rw [href]; exact hs
        · rw [href]; exact Nat.le_max_right _ _
        · rw [href]; exact Nat.min_le_right _ _
      · simp [Pair.clamp, Interval.clamp, hc, hs, hmeet] at h
    · rw [(C15_clamp_mismatch p iv).2 hc hs] at h
      cases h
  · rw [(C15_clamp_mismatch p iv).1 hc] at h
    cases h

theorem C01_reclamp (ls : List Raw) (hv : ∀ r ∈ ls, r.Valid) (ss : List Sec) (hw : WFFile ls ss)
    (m : Machine) (hb : buildL ls = .ok m) (iv : Interval) (hiv : iv.WF) :
    ∀ p ∈ liftL m iv, p.clamp iv = .ok p := by
  intro p hp
  obtain ⟨s, hs, hsv, hsm, blk, hblk, hh, rfl⟩ := mem_liftL ls hv ss hw m hb iv hiv p hp
  obtain ⟨hwf, _⟩ := blocks_wf s hsv hsm blk hblk
  obtain ⟨hc, hst, hov⟩ := (hit_iff blk iv).1 hh
  have hw1 := hwf.1.1
  have hw2 := hiv.1
  have hmeet : max blk.ref.lo iv.lo ≤ min blk.ref.hi iv.hi := by omega
  exact C15_clamp_idem blk iv hwf hiv (restrict iv blk) (C15_clamp blk iv hwf hiv hc hst hmeet)

end CF
