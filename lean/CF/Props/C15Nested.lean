/-
  Clamping to nested operands: clamping first to the larger operand and then to the smaller one is the
  same as clamping to the smaller one directly; clamps to two operands commute.
-/
import CF.Props.C15Idem
namespace CF

/-- restricting a restriction: the restriction to `[A', B'] ⊆ [A, B]` of the restriction to `[A, B]`
    is the restriction to `[A', B']` -/
theorem sub_sub_range (p : Pair) (hp : p.WF) (A B A' B' : Nat) (h1 : p.ref.lo ≤ A) (h2 : A ≤ A')
    (h3 : A' ≤ B') (h4 : B' ≤ B) (h5 : B ≤ p.ref.hi) (q : Pair)
    (hq : q = p.sub (min (p.ref.offOf A) (p.ref.offOf B)) (max (p.ref.offOf A) (p.ref.offOf B))) :
    q.sub (min (q.ref.offOf A') (q.ref.offOf B')) (max (q.ref.offOf A') (q.ref.offOf B'))
      = p.sub (min (p.ref.offOf A') (p.ref.offOf B')) (max (p.ref.offOf A') (p.ref.offOf B')) := by
  subst hq
  obtain ⟨⟨r1, r2⟩, ⟨q1, q2⟩, hcnt⟩ := hp
  rcases p with ⟨⟨rcn, rst, rlo, rhi⟩, ⟨qcn, qst, qlo, qhi⟩⟩
  simp only [Interval.count] at *
  cases rst <;> cases qst <;>
    simp only [Pair.sub, Interval.sub, Interval.offOf, Pair.mk.injEq, Interval.mk.injEq, true_and] <;>
    omega

/-- clamping a clamp result `q` of `p` (reference side `[A, B]`) to an operand whose intersection with
    `[A, B]` is `[A', B']` -/
theorem clamp_of_sub (p : Pair) (hp : p.WF) (iv : Interval) (hiv : iv.WF)
    (hc : p.ref.contig = iv.contig) (hs : p.ref.strand = iv.strand)
    (A B A' B' : Nat) (h1 : p.ref.lo ≤ A) (h2 : A ≤ A')
    (h3 : A' ≤ B') (h4 : B' ≤ B) (h5 : B ≤ p.ref.hi)
    (e1 : max A iv.lo = A') (e2 : min B iv.hi = B') :
    (p.sub (min (p.ref.offOf A) (p.ref.offOf B)) (max (p.ref.offOf A) (p.ref.offOf B))).clamp iv
      = .ok (p.sub (min (p.ref.offOf A') (p.ref.offOf B')) (max (p.ref.offOf A') (p.ref.offOf B'))) := by
  obtain ⟨hwf, href⟩ := sub_range_wf p hp A B h1 (by omega) h5
  generalize hq : p.sub (min (p.ref.offOf A) (p.ref.offOf B)) (max (p.ref.offOf A) (p.ref.offOf B)) = q at *
  have f1 : max q.ref.lo iv.lo = A' := by rw [href]; exact e1
  have f2 : min q.ref.hi iv.hi = B' := by rw [href]; exact e2
  have hcl := C15_clamp q iv hwf hiv (by rw [href]; exact hc) (by rw [href]; exact hs)
    (by rw [f1, f2]; exact h3)
  rw [f1, f2] at hcl
  rw [hcl, sub_sub_range p hp A B A' B' h1 h2 h3 h4 h5 q hq.symm]

/-- `a ⊆ b` (same contig and strand): clamping to `b` first loses nothing that clamping to `a` needs —
    same pair, or the same refusal. -/
theorem C15_clamp_nested (p : Pair) (a b : Interval) (hp : p.WF) (ha : a.WF) (hb : b.WF)
    (hc : a.contig = b.contig) (hs : a.strand = b.strand) (h1 : b.lo ≤ a.lo) (h2 : a.hi ≤ b.hi)
    (p' : Pair) (h : p.clamp b = .ok p') : p'.clamp a = p.clamp a := by
  have hpw := hp.1.1
  have haw := ha.1
  by_cases hcb : p.ref.contig = b.contig
  · by_cases hsb : p.ref.strand = b.strand
    · by_cases hmeet : max p.ref.lo b.lo ≤ min p.ref.hi b.hi
      · rw [C15_clamp p b hp hb hcb hsb hmeet] at h
        cases h
        by_cases hma : max p.ref.lo a.lo ≤ min p.ref.hi a.hi
        · rw [C15_clamp p a hp ha (hcb.trans hc.symm) (hsb.trans hs.symm) hma]
          exact clamp_of_sub p hp a ha (hcb.trans hc.symm) (hsb.trans hs.symm) _ _ _ _
            (Nat.le_max_left _ _) (by omega) hma (by omega) (Nat.min_le_left _ _) (by omega) (by omega)
        · obtain ⟨hwf, href⟩ := sub_range_wf p hp _ _ (Nat.le_max_left _ _) hmeet (Nat.min_le_left _ _)
          have hma' : ¬ max (max p.ref.lo b.lo) a.lo ≤ min (min p.ref.hi b.hi) a.hi := by omega
          simp only [Pair.clamp, Interval.clamp, href, hcb, hsb, hc, hs, hma, hma', ne_eq,
            not_true_eq_false, if_false]
      · simp [Pair.clamp, Interval.clamp, hcb, hsb, hmeet] at h
    · rw [(C15_clamp_mismatch p b).2 hcb hsb] at h
      cases h
  · rw [(C15_clamp_mismatch p b).1 hcb] at h
    cases h

/-- a successful clamp pins down the operand (same contig and strand, meeting the reference interval)
    and the result -/
theorem clamp_ok_inv (p : Pair) (iv : Interval) (hp : p.WF) (hiv : iv.WF) (p' : Pair)
    (h : p.clamp iv = .ok p') :
    p.ref.contig = iv.contig ∧ p.ref.strand = iv.strand ∧ max p.ref.lo iv.lo ≤ min p.ref.hi iv.hi ∧
    p' = p.sub (min (p.ref.offOf (max p.ref.lo iv.lo)) (p.ref.offOf (min p.ref.hi iv.hi)))
               (max (p.ref.offOf (max p.ref.lo iv.lo)) (p.ref.offOf (min p.ref.hi iv.hi))) := by
  by_cases hc : p.ref.contig = iv.contig
  · by_cases hs : p.ref.strand = iv.strand
    · by_cases hmeet : max p.ref.lo iv.lo ≤ min p.ref.hi iv.hi
      · rw [C15_clamp p iv hp hiv hc hs hmeet] at h
        cases h
        exact ⟨hc, hs, hmeet, rfl⟩
      · simp [Pair.clamp, Interval.clamp, hc, hs, hmeet] at h
    · rw [(C15_clamp_mismatch p iv).2 hc hs] at h
      cases h
  · rw [(C15_clamp_mismatch p iv).1 hc] at h
    cases h

/-- clamping to two operands in either order gives the same pair -/
theorem C15_clamp_comm (p : Pair) (a b : Interval) (hp : p.WF) (ha : a.WF) (hb : b.WF)
    (pa pab pb pba : Pair) (h1 : p.clamp a = .ok pa) (h2 : pa.clamp b = .ok pab)
    (h3 : p.clamp b = .ok pb) (h4 : pb.clamp a = .ok pba) : pab = pba := by
  have hpw := hp.1.1
  obtain ⟨hca, hsa, hma, rfl⟩ := clamp_ok_inv p a hp ha pa h1
  obtain ⟨hcb, hsb, hmb, rfl⟩ := clamp_ok_inv p b hp hb pb h3
  obtain ⟨hwa, hra⟩ := sub_range_wf p hp _ _ (Nat.le_max_left _ _) hma (Nat.min_le_left _ _)
  obtain ⟨hwb, hrb⟩ := sub_range_wf p hp _ _ (Nat.le_max_left _ _) hmb (Nat.min_le_left _ _)
  obtain ⟨_, _, hmab, _⟩ := clamp_ok_inv _ b hwa hb pab h2
  rw [hra] at hmab
  simp only at hmab
  have hmm : max (max p.ref.lo a.lo) b.lo ≤ min (min p.ref.hi a.hi) b.hi := hmab
  rw [clamp_of_sub p hp b hb hcb hsb _ _ (max (max p.ref.lo a.lo) b.lo) (min (min p.ref.hi a.hi) b.hi)
    (Nat.le_max_left _ _) (Nat.le_max_left _ _) hmm (Nat.min_le_left _ _) (Nat.min_le_left _ _)
    rfl rfl] at h2
  rw [clamp_of_sub p hp a ha hca hsa _ _ (max (max p.ref.lo a.lo) b.lo) (min (min p.ref.hi a.hi) b.hi)
    (Nat.le_max_left _ _) (by omega) hmm (by omega) (Nat.min_le_left _ _)
    (by omega) (by omega)] at h4
  cases h2
  cases h4
  rfl

end CF
