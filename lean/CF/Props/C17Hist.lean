/-
  C17 — histories: what a history of reader operations observes depends only on the lines it
  consumed, and consecutive operations partition the consumed lines in order.
-/
import CF.Props.C17
import CF.Lemmas.HistAux
namespace CF

/-- number of lines a history consumes -/
def Ops.consumed (ops : List ReaderOp) (rs : List RawRes) : Nat := rs.length - (Ops.run ops rs).2.length

/-- the cursor after a history is exactly the input minus the consumed prefix -/
theorem C17_consumed_prefix (ops : List ReaderOp) (rs : List RawRes) :
    Ops.consumed ops rs ≤ rs.length ∧ (Ops.run ops rs).2 = rs.drop (Ops.consumed ops rs) := by
  obtain ⟨k, hk, e⟩ := C17_run_suffix ops rs
  have hc : Ops.consumed ops rs = k := by
    simp only [Ops.consumed, e, List.length_drop]; omega
  rw [hc]
  exact ⟨hk, e⟩

/-- consumption adds up over a history: the second part starts exactly where the first stopped, so
    every line is consumed by exactly one operation, in order -/
theorem C17_consumed_append (ops₁ ops₂ : List ReaderOp) (rs : List RawRes) :
    Ops.consumed (ops₁ ++ ops₂) rs =
      Ops.consumed ops₁ rs + Ops.consumed ops₂ (rs.drop (Ops.consumed ops₁ rs)) := by
  obtain ⟨h1, e1⟩ := C17_consumed_prefix ops₁ rs
  obtain ⟨h2, e2⟩ := C17_consumed_prefix ops₂ (rs.drop (Ops.consumed ops₁ rs))
  have e : (Ops.run (ops₁ ++ ops₂) rs).2 =
      (Ops.run ops₂ (rs.drop (Ops.consumed ops₁ rs))).2 := by
    rw [C17_run_append, e1]
  rw [List.length_drop] at h2
  have e3 := congrArg List.length e2
  rw [List.length_drop, List.length_drop] at e3
  have e4 : Ops.consumed ops₂ (rs.drop (Ops.consumed ops₁ rs)) =
      (rs.drop (Ops.consumed ops₁ rs)).length -
        (Ops.run ops₂ (rs.drop (Ops.consumed ops₁ rs))).2.length := rfl
  rw [List.length_drop] at e4
  have e5 : Ops.consumed (ops₁ ++ ops₂) rs =
      rs.length - (Ops.run ops₂ (rs.drop (Ops.consumed ops₁ rs))).2.length := by
    simp only [Ops.consumed, e]
  omega

/-- **No look-ahead, for whole histories.** If a history stops before the end of the input, then what it
    observed is exactly what it observes on the consumed prefix alone: nothing beyond the consumed
    lines influenced any observation. -/
theorem C17_prefix_determines (ops : List ReaderOp) (rs : List RawRes)
    (hk : Ops.consumed ops rs < rs.length) :
    Ops.run ops (rs.take (Ops.consumed ops rs)) = ((Ops.run ops rs).1, []) := by
  obtain ⟨h1, e1⟩ := C17_consumed_prefix ops rs
  have hne : (Ops.run ops rs).2 ≠ [] := by
    intro h0
    have := congrArg List.length h0
    rw [e1, List.length_drop] at this
    simp at this; omega
  obtain ⟨pre, e, l⟩ := run_local ops rs hne
  have hlen : pre.length = Ops.consumed ops rs := by
    have := congrArg List.length e
    rw [List.length_append] at this
    simp only [Ops.consumed]; omega
  have hpre : rs.take (Ops.consumed ops rs) = pre := by
    rw [← hlen, e]
    exact List.take_left' rfl
  rw [hpre]
  have := l []
  rwa [List.append_nil] at this

end CF
