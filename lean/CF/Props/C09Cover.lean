/-
  C09 — further forms: ANY cover of an interval by two intervals (overlapping or not, on block
  boundaries or not), restriction to a sub-interval, monotonicity.
-/
import CF.Props.C09
namespace CF

/-- For every file and every three well-formed intervals such that the bases of `iv` are exactly the
    bases of `a` or of `b` (the parts may overlap, touch, or be nested), lifting `iv` pairs exactly the
    bases that lifting `a` or lifting `b` pairs. `C09_split` is the case of two adjacent parts. -/
theorem C09_cover (ls : List Raw) (hv : ∀ r ∈ ls, r.Valid) (ss : List Sec) (hw : WFFile ls ss)
    (m : Machine) (hb : buildL ls = .ok m) (iv a b : Interval) (hiv : iv.WF) (ha : a.WF) (hbw : b.WF)
    (hcov : ∀ x : Base, iv.hasBase x ↔ (a.hasBase x ∨ b.hasBase x)) (x y : Base) :
    basePairs (liftL m iv) x y ↔ (basePairs (liftL m a) x y ∨ basePairs (liftL m b) x y) := by
  rw [lift_char ls hv ss hw m hb iv hiv, lift_char ls hv ss hw m hb a ha, lift_char ls hv ss hw m hb b hbw, hcov x]
  constructor
  · rintro ⟨h, h1 | h2⟩
    · exact Or.inl ⟨h, h1⟩
    · exact Or.inr ⟨h, h2⟩
  · rintro (⟨h, h1⟩ | ⟨h, h2⟩)
    · exact ⟨h, Or.inl h1⟩
    · exact ⟨h, Or.inr h2⟩

/-- Lifting a sub-interval is lifting the whole and keeping the pairings whose reference base lies in the
    sub-interval: nothing is lost, moved or invented by asking for less. -/
theorem C09_restrict (ls : List Raw) (hv : ∀ r ∈ ls, r.Valid) (ss : List Sec) (hw : WFFile ls ss)
    (m : Machine) (hb : buildL ls = .ok m) (iv sub : Interval) (hiv : iv.WF) (hsub : sub.WF)
    (hin : ∀ x : Base, sub.hasBase x → iv.hasBase x) (x y : Base) :
    basePairs (liftL m sub) x y ↔ (basePairs (liftL m iv) x y ∧ sub.hasBase x) := by
  rw [lift_char ls hv ss hw m hb iv hiv, lift_char ls hv ss hw m hb sub hsub]
  constructor
  · rintro ⟨h, hx⟩
    exact ⟨⟨h, hin x hx⟩, hx⟩
  · rintro ⟨⟨h, _⟩, hx⟩
    exact ⟨h, hx⟩

/-- monotone: a larger request never loses a pairing a smaller one had -/
theorem C09_mono (ls : List Raw) (hv : ∀ r ∈ ls, r.Valid) (ss : List Sec) (hw : WFFile ls ss)
    (m : Machine) (hb : buildL ls = .ok m) (iv sub : Interval) (hiv : iv.WF) (hsub : sub.WF)
    (hin : ∀ x : Base, sub.hasBase x → iv.hasBase x) (x y : Base) :
    basePairs (liftL m sub) x y → basePairs (liftL m iv) x y :=
  fun h => ((C09_restrict ls hv ss hw m hb iv sub hiv hsub hin x y).1 h).1

/-- the inclusion hypothesis of `C09_restrict`/`C09_mono` in coordinates (and satisfiable) -/
theorem C09_sub_of_bounds (iv sub : Interval) (hc : sub.contig = iv.contig) (hs : sub.strand = iv.strand)
    (h1 : iv.lo ≤ sub.lo) (h2 : sub.hi ≤ iv.hi) : ∀ x : Base, sub.hasBase x → iv.hasBase x := by
  rintro x ⟨a, b, c, d⟩
  exact ⟨a.trans hc, b.trans hs, by omega, by omega⟩

end CF
