/-
  C17 — One cursor: every reading method consumes the stream strictly line by line.
  Property theorems only.
-/
import CF.Lemmas.Sections
import CF.Model.Ops
import CF.Lemmas.OpsAux
namespace CF

/-- whatever a reading operation does, what is left is a suffix of what was there: lines are
    consumed in order, none is skipped or revisited -/
theorem C17_step_suffix (op : ReaderOp) (rs : List RawRes) :
    ∃ k, k ≤ rs.length ∧ (Ops.step op rs).2 = rs.drop k := by
  exact step_suffix op rs

/-- …for every history of operations, interleaved arbitrarily -/
theorem C17_run_suffix (ops : List ReaderOp) (rs : List RawRes) :
    ∃ k, k ≤ rs.length ∧ (Ops.run ops rs).2 = rs.drop k := by
  exact run_suffix ops rs

/-- a history is the same as its operations run one after the other on one shared cursor -/
theorem C17_run_append (ops₁ ops₂ : List ReaderOp) (rs : List RawRes) :
    Ops.run (ops₁ ++ ops₂) rs =
      ((Ops.run ops₁ rs).1 ++ (Ops.run ops₂ (Ops.run ops₁ rs).2).1, (Ops.run ops₂ (Ops.run ops₁ rs).2).2) := by
  exact run_append ops₁ ops₂ rs

/-- a raw read and a parsed read consume exactly one line when there is one, and report it -/
theorem C17_raw (r : RawRes) (rs : List RawRes) :
    Ops.step .raw (r :: rs) = (.raw (some r), rs) ∧ Ops.step .raw [] = (.raw none, []) := by
  exact ⟨rfl, rfl⟩

theorem C17_line (r : RawRes) (rs : List RawRes) :
    (Ops.step .line (r :: rs)).2 = rs ∧ (Ops.step .line []) = (.line (.ok none), []) ∧
    ((Ops.step .line (r :: rs)).1 = match Raw.ofRes r, r with
      | .line l, _ => .line (.ok (some l))
      | .unparsable _, _ => .line (.error .parse)
      | .io, .utf8 => .line (.error .utf8)
      | .io, _ => .line (.error .io)) := by
  refine ⟨?_, rfl, ?_⟩
  · show (readLine (r :: rs)).2 = rs
    rw [readLine_snd]; rfl
  · cases r with
    | io => rfl
    | utf8 => rfl
    | line n t =>
      simp only [Ops.step, readLine, Raw.ofRes]
      cases Line.parse t <;> rfl

/-- `k` calls on a `lines()` iterator consume exactly `min k (remaining lines)` lines -/
theorem C17_lines (k : Nat) (rs : List RawRes) :
    (Ops.step (.lines k) rs).2 = rs.drop k := by
  exact linesNext_snd k rs

/-- **No look-ahead.** When a section iterator at rest yields a section it has consumed exactly
    through that section's terminating line: the remaining cursor starts right after it, and the
    same section is yielded, with the same remaining cursor `other`, whatever follows that line. -/
theorem C17_section_no_lookahead (it it' : SecIt) (hst : it.st = .between) (rs rest : List RawRes) (s : Sec)
    (h : secsNext1 it rs = (.item (.ok s), it', rest)) :
    ∃ k, 0 < k ∧ k ≤ rs.length ∧ rest = rs.drop k ∧
      (∃ last, s.data.getLast? = some last ∧ last.kind = .term ∧
        (rs.take k).getLast?.map Raw.ofRes = some (.line (.data last))) ∧
      ∀ other, secsNext1 it (rs.take k ++ other) = (.item (.ok s), it', other) := by
  exact section_no_lookahead it it' hst rs rest s h

end CF
