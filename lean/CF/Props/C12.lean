/-
  C12 — Parsing is independent of line endings, blank padding and read chunking.
  Property theorems only.
-/
import CF.Lemmas.Source
import CF.Spec.Lines
import CF.Spec.Grammar
import CF.Lemmas.SourceAux
import CF.Lemmas.Lines
import CF.Lemmas.SpecAux
namespace CF

/-- **Chunking.** For every source that only delivers data (every schedule of chunk sizes: 1 byte at
    a time, any split, between CR and LF, inside a number, …) the results of all `read_line_raw`
    calls are those of the concatenated bytes. -/
theorem C12_lines_spec (v : List UInt8 → Bool) (s : List Ev) (hc : chunkOnly s) :
    rawLines v s = linesOfBytes v (bytesOf s) := by
  exact rawLines_chunks v (weight s) s (Nat.le_refl _) hc

theorem C12_chunks (v : List UInt8 → Bool) (s₁ s₂ : List Ev) (h₁ : chunkOnly s₁) (h₂ : chunkOnly s₂)
    (hb : bytesOf s₁ = bytesOf s₂) : rawLines v s₁ = rawLines v s₂ := by
  rw [rawLines_chunks v (weight s₁) s₁ (Nat.le_refl _) h₁, rawLines_chunks v (weight s₂) s₂ (Nat.le_refl _) h₂, hb]

/-- **Raw reads.** The pieces consumed by successive raw reads are exactly the bytes of the input, in
    order, each piece reported with its full length (terminators included) … -/
theorem C12_raw_pieces (bs : List UInt8) : (splitLines bs).flatten = bs ∧ ∀ p ∈ splitLines bs, p ≠ [] := by
  have := splitLinesAux_pieces bs []
  simpa [splitLines] using this

/-- … and returned without its terminators: one LF, then one CR -/
theorem C12_stripEol (t : List UInt8) :
    (t.getLast? ≠ some CR → stripEol (t ++ [LF]) = t) ∧
    stripEol (t ++ [CR, LF]) = t ∧
    (t.getLast? ≠ some LF → stripEol t = t) := by
  exact ⟨stripEol_LF t, stripEol_CRLF t, stripEol_of_ne t⟩

/-- **Line endings and the final newline.** Writing the same line texts with LF or with CRLF, with
    or without a final terminator, gives the same sequence of lines; each read reports
    `length + terminator length` bytes. (Texts contain no LF and do not end in CR; without a
    final terminator the last text is non-empty — an empty last text is no line at all.) -/
theorem C12_endings (ts : List (List UInt8)) (hlf : ∀ t ∈ ts, LF ∉ t) (hcr : ∀ t ∈ ts, t.getLast? ≠ some CR)
    (final : Bool) (hlast : final = false → ts.getLast? ≠ some []) :
    (splitLines (encodeLines [LF] final ts)).map stripEol = ts ∧
    (splitLines (encodeLines [CR, LF] final ts)).map stripEol = ts := by
  exact ⟨encode_endings [LF] goodEol_LF final ts hlf hcr hlast,
    encode_endings [CR, LF] goodEol_CRLF final ts hlf hcr hlast⟩

/-- **Blank padding.** A blank line between sections changes nothing but the line numbers quoted in
    later errors: the specification-level parse (which `C05_spec` ties to the iterator) skips it. -/
theorem C12_blank_between (n : Nat) (ls : List Raw) :
    specSecs n (Raw.line .empty :: ls) = specSecs (n + 1) ls := by
  exact specSecs_empty n ls

/-- the parse does not depend on the starting line number except inside `blank n` errors -/
def eraseLineNo : SpecItem → SpecItem
  | .err (.blank _) => .err (.blank 0)
  | x => x

theorem C12_lineNo_irrelevant (n n' : Nat) (ls : List Raw) :
    (specSecs n ls).map eraseLineNo = (specSecs n' ls).map eraseLineNo := by
  have he : eraseLineNo = eraseItemNo := by
    funext x
    cases x with
    | sec s => rfl
    | err e => cases e <;> rfl
  rw [he]
  exact specSecs_lineNo ls.length ls n n' (Nat.le_refl _)

/-- blank lines inserted anywhere between sections of a conforming stream do not change its sections -/
theorem C12_blank_parses (a b : List Line) (ss₁ ss₂ : List Sec) (h₁ : Parses a ss₁) (h₂ : Parses b ss₂) (k : Nat) :
    Parses (a ++ List.replicate k Line.empty ++ b) (ss₁ ++ ss₂) := by
  induction h₁ with
  | nil => simpa using parses_blanks k b ss₂ h₂
  | blank _ ih => simpa using Parses.blank ih
  | sec h mid last hm hl _ ih =>
    have := Parses.sec h mid last hm hl ih
    simpa [List.append_assoc] using this

end CF
