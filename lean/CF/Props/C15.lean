/-
  C15 — Interval-pair algebra: offset-preserving liftover and intersection-exact clamp.
  Property theorems only; helper lemmas live in `CF/Lemmas/Pair.lean`.
-/
import CF.Lemmas.Pair
namespace CF

/-- constructing a pair succeeds exactly when the two lengths are equal (and then stores both
    intervals unchanged) -/
theorem C15_tryNew (R Q : Interval) :
    (R.count = Q.count → Pair.tryNew R Q = .ok ⟨R, Q⟩) ∧
    (R.count ≠ Q.count → Pair.tryNew R Q = .error (.counts R.count Q.count)) := by
  constructor <;> intro h <;> simp [Pair.tryNew, h]

/-- lifting a coordinate returns the query coordinate at the same strand-directed offset exactly
    when the coordinate lies within the reference interval (both ends included), nothing otherwise -/
theorem C15_lift (p : Pair) (hp : p.WF) (c : Coord) :
    p.lift c = if p.ref.contains c then some (p.qry.coordAt (p.ref.offOf c.pos)) else none := by
  by_cases h : p.ref.contains c = true
  · rw [lift_eq p hp c h]; simp [h]
  · simp [Pair.lift, Interval.offset, h]

/-- `contains` spelled out: same contig, same strand, `lo ≤ pos ≤ hi` -/
theorem C15_contains (i : Interval) (c : Coord) :
    i.contains c = true ↔ i.contig = c.contig ∧ i.strand = c.strand ∧ i.lo ≤ c.pos ∧ c.pos ≤ i.hi :=
  contains_iff i c

/-- clamping to an interval on the same contig and strand that meets the reference interval
    (shares at least one position: overlapping, nested, touching at either end, zero-length)
    returns the restriction of the pair to the strand-directed offsets of the intersection;
    never an error, never a panic -/
theorem C15_clamp (p : Pair) (iv : Interval) (hp : p.WF) (hiv : iv.WF)
    (hc : p.ref.contig = iv.contig) (hs : p.ref.strand = iv.strand)
    (hmeet : max p.ref.lo iv.lo ≤ min p.ref.hi iv.hi) :
    p.clamp iv = .ok (p.sub (min (p.ref.offOf (max p.ref.lo iv.lo)) (p.ref.offOf (min p.ref.hi iv.hi)))
                            (max (p.ref.offOf (max p.ref.lo iv.lo)) (p.ref.offOf (min p.ref.hi iv.hi)))) :=
  clamp_spec p iv hp hiv hc hs hmeet

/-- …and that restriction is: the intersection on the reference side, the images of its two ends
    on the query side, with equal lengths. -/
theorem C15_clamp_shape (p : Pair) (iv : Interval) (hp : p.WF) (hiv : iv.WF)
    (hc : p.ref.contig = iv.contig) (hs : p.ref.strand = iv.strand)
    (hmeet : max p.ref.lo iv.lo ≤ min p.ref.hi iv.hi) :
    ∃ p', p.clamp iv = .ok p' ∧
      p'.ref = ⟨p.ref.contig, p.ref.strand, max p.ref.lo iv.lo, min p.ref.hi iv.hi⟩ ∧
      p.lift p'.ref.start = some p'.qry.start ∧ p.lift p'.ref.stop = some p'.qry.stop ∧
      p'.ref.count = p'.qry.count := by
  refine ⟨_, clamp_spec p iv hp hiv hc hs hmeet, ?_⟩
  have hp' := hp
  obtain ⟨⟨r1, r2⟩, ⟨q1, q2⟩, hcnt⟩ := hp
  have hA1 : p.ref.lo ≤ max p.ref.lo iv.lo := Nat.le_max_left _ _
  have hB1 : min p.ref.hi iv.hi ≤ p.ref.hi := Nat.min_le_left _ _
  generalize max p.ref.lo iv.lo = A at *
  generalize min p.ref.hi iv.hi = B at *
  rcases p with ⟨⟨rcn, rst, rlo, rhi⟩, ⟨qcn, qst, qlo, qhi⟩⟩
  simp only [Interval.count] at *
  have hcs : (Interval.mk rcn rst rlo rhi).contains (Interval.mk rcn rst A B).start = true := by
    rw [contains_iff]; simp only [Interval.start]; cases rst <;> simp <;> omega
  have hce : (Interval.mk rcn rst rlo rhi).contains (Interval.mk rcn rst A B).stop = true := by
    rw [contains_iff]; simp only [Interval.stop]; cases rst <;> simp <;> omega
  have e1 : ((Pair.mk ⟨rcn, rst, rlo, rhi⟩ ⟨qcn, qst, qlo, qhi⟩).sub
      (min ((Interval.mk rcn rst rlo rhi).offOf A) ((Interval.mk rcn rst rlo rhi).offOf B))
      (max ((Interval.mk rcn rst rlo rhi).offOf A) ((Interval.mk rcn rst rlo rhi).offOf B))).ref
       = ⟨rcn, rst, A, B⟩ := by
    cases rst <;> simp [Pair.sub, Interval.sub, Interval.offOf] <;> omega
  refine ⟨e1, ?_, ?_, ?_⟩
  · rw [e1, lift_eq _ hp' _ hcs]
    cases rst <;> cases qst <;> simp [Pair.sub, Interval.sub, Interval.offOf, Interval.coordAt, Interval.start] <;> omega
  · rw [e1, lift_eq _ hp' _ hce]
    cases rst <;> cases qst <;> simp [Pair.sub, Interval.sub, Interval.offOf, Interval.coordAt, Interval.stop] <;> omega
  · cases rst <;> cases qst <;> simp [Pair.sub, Interval.sub, Interval.offOf] <;> omega

/-- a different contig or strand is an error -/
theorem C15_clamp_mismatch (p : Pair) (iv : Interval) :
    (p.ref.contig ≠ iv.contig → p.clamp iv = .err (.interval .clampContig)) ∧
    (p.ref.contig = iv.contig → p.ref.strand ≠ iv.strand → p.clamp iv = .err (.interval .clampStrand)) := by
  constructor
  · intro h; simp [Pair.clamp, Interval.clamp, h]
  · intro h1 h2; simp [Pair.clamp, Interval.clamp, h1, h2]

/-- non-vacuity: a concrete '+'→'-' pair and an operand touching its start meet the hypotheses -/
example : (⟨⟨[97], .pos, 10, 20⟩, ⟨[98], .neg, 5, 15⟩⟩ : Pair).WF ∧
    (⟨[97], .pos, 0, 10⟩ : Interval).WF ∧ max 10 0 ≤ min 20 10 := by
  simp [Pair.WF, Interval.WF, Interval.count, U64_MAX]

end CF
