/-
  C05 — Section iterator conforms to the chain-file line grammar up to the first error.
  Property theorems only; helper lemmas live in `CF/Lemmas/`.
-/
import CF.Lemmas.Grammar
import CF.Spec.WF
import CF.Spec.GrammarObs
import CF.Lemmas.SectionsSpec
namespace CF

/-- **The grammar theorem.** For every stream of read results (every sequence over blank, header,
    non-terminating data, terminating data, unparsable line, failed read — of every length),
    driving the iterator to exhaustion yields, up to and including the first error, exactly what
    the specification-level parser `specSecs` says: the sections that precede the first lexical or
    structural error, in order, then that error with its kind (blank line inside a section with
    its 1-based line number, header inside a section, data between sections, end of input inside
    a section, unparsable line with its text, failed read); an error-free stream yields all of
    its sections and then ends. -/
theorem C05_spec (ls : List Raw) (n fuel : Nat) (hf : ls.length + 2 ≤ fuel) :
    uptoErr (SecIt.drain fuel ⟨.between, n⟩ ls) =
      (specSecs (n + 1) ls).map SpecItem.toOut3 ++
        (if (specSecs (n + 1) ls).all SpecItem.isSec then [.done] else []) := by
  exact drain_spec ls n fuel hf

/-- The specification-level parser is the line grammar: it returns only sections, `ss`, exactly when
    every read succeeded and parsed and the lines conform to the grammar with sections `ss`. -/
theorem C05_specSecs_iff_parses (ls : List Raw) (ss : List Sec) (n : Nat) :
    specSecs n ls = ss.map SpecItem.sec ↔ ∃ lines, ls = lines.map Raw.line ∧ Parses lines ss := by
  constructor
  · exact parses_of_specSecs ls ss n
  · rintro ⟨lines, rfl, hp⟩
    exact specSecs_of_parses hp n

/-- The first-error table of the specification, spelled out on the decomposition
    `stream = good ++ partial ++ bad :: rest` (`good` parses to `ss`; `partial` is empty or a header
    followed by non-terminating records). -/
theorem C05_first_error (good : List Line) (ss : List Sec) (hg : Parses good ss) (n : Nat)
    (h : Hdr) (mid : List Rec) (hm : ∀ r ∈ mid, r.kind = .nonterm) (rest : List Raw) :
    -- data between sections
    (∀ r, specSecs n (good.map Raw.line ++ Raw.line (.data r) :: rest) =
        ss.map SpecItem.sec ++ [.err (.dataBetween r)]) ∧
    -- unparsable line between sections / failed read between sections
    (∀ t, specSecs n (good.map Raw.line ++ Raw.unparsable t :: rest) =
        ss.map SpecItem.sec ++ [.err (.unparsable t)]) ∧
    (specSecs n (good.map Raw.line ++ Raw.io :: rest) = ss.map SpecItem.sec ++ [.err .io]) ∧
    -- inside a section: blank line (with its 1-based line number), header, unparsable, failed read, end of input
    (specSecs n (good.map Raw.line ++ Raw.line (.header h) :: mid.map (fun r => Raw.line (.data r)) ++ Raw.line .empty :: rest) =
        ss.map SpecItem.sec ++ [.err (.blank (n + good.length + 1 + mid.length))]) ∧
    (∀ h', specSecs n (good.map Raw.line ++ Raw.line (.header h) :: mid.map (fun r => Raw.line (.data r)) ++ Raw.line (.header h') :: rest) =
        ss.map SpecItem.sec ++ [.err (.headerIn h')]) ∧
    (∀ t, specSecs n (good.map Raw.line ++ Raw.line (.header h) :: mid.map (fun r => Raw.line (.data r)) ++ Raw.unparsable t :: rest) =
        ss.map SpecItem.sec ++ [.err (.unparsable t)]) ∧
    (specSecs n (good.map Raw.line ++ Raw.line (.header h) :: mid.map (fun r => Raw.line (.data r)) ++ Raw.io :: rest) =
        ss.map SpecItem.sec ++ [.err .io]) ∧
    (specSecs n (good.map Raw.line ++ Raw.line (.header h) :: mid.map (fun r => Raw.line (.data r))) =
        ss.map SpecItem.sec ++ [.err .abruptEnd]) := by
  have hA := specSecs_parses_append hg n
  have hP := fun tail e rest' => specSecs_partial (n + good.length) h mid hm tail e rest'
  refine ⟨?_, ?_, ?_, ?_, ?_, ?_, ?_, ?_⟩
  · intro r; rw [hA, specSecs_data]
  · intro t; rw [hA, specSecs_unparsable]
  · rw [hA, specSecs_io]
  · rw [List.append_assoc, hA, List.cons_append, hP _ (.blank (n + good.length + 1 + mid.length)) rest]
    intro acc; simp [specBody]
  · intro h'
    rw [List.append_assoc, hA, List.cons_append, hP _ (.headerIn h') rest]
    intro acc; simp [specBody]
  · intro t
    rw [List.append_assoc, hA, List.cons_append, hP _ (.unparsable t) rest]
    intro acc; simp [specBody]
  · rw [List.append_assoc, hA, List.cons_append, hP _ .io rest]
    intro acc; simp [specBody]
  · have := hP [] .abruptEnd [] (by intro acc; simp [specBody])
    rw [List.append_nil] at this
    rw [hA, this]

/-- Every section the iterator ever yields — also after an error, in every history of `next()`
    calls — is a run of consecutive input lines: a header line followed by its data lines, all of
    them non-terminating except the last, which is terminating. -/
theorem C05_runs (ls : List Raw) (it : SecIt) (hst : it.st = .between) (fuel : Nat) (s : Sec)
    (hs : Out3.item (.ok s) ∈ SecIt.drain fuel it ls) :
    ∃ pre post mid last, ls = pre ++ Raw.line (.header s.hdr) :: s.data.map (fun r => Raw.line (.data r)) ++ post ∧
      s.data = mid ++ [last] ∧ (∀ r ∈ mid, r.kind = .nonterm) ∧ last.kind = .term := by
  exact drain_runs fuel ls it hst s hs

/-- non-vacuity of the grammar theorem's error-free branch: a two-line stream that parses -/
example : Parses [.header ⟨0, ⟨[97], 4, .pos, 0, 4⟩, ⟨[98], 4, .pos, 0, 4⟩, 1⟩, .data ⟨4, none, none, .term⟩]
    [⟨⟨0, ⟨[97], 4, .pos, 0, 4⟩, ⟨[98], 4, .pos, 0, 4⟩, 1⟩, [⟨4, none, none, .term⟩]⟩] := by
  have := Parses.sec (ls := []) (ss := []) ⟨0, ⟨[97], 4, .pos, 0, 4⟩, ⟨[98], 4, .pos, 0, 4⟩, 1⟩ []
    ⟨4, none, none, .term⟩ (by simp) rfl Parses.nil
  simpa using this

end CF
