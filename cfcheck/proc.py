"""Line servers: the implementation (`cfimpl`, real crate) and the model (`cfdriver`, Lean)."""
import os
import select
import subprocess

# a reply that does not arrive within this many seconds is a hang of the server (an iterator that never returns,
# a deadlock): the server is killed and restarted and the reply is the word "hang"
TIMEOUT = {"impl": float(os.environ.get("CFVERIF_IMPL_TIMEOUT", "60")), "model": float(os.environ.get("CFVERIF_MODEL_TIMEOUT", "900"))}


class Server:
    def __init__(self, cmd, name):
        self.cmd = cmd
        self.name = name
        self.p = None
        self.requests = 0
        self.restarts = 0
        import os
        lp = os.environ.get("CFVERIF_LOG_REQUESTS")
        self.log = open(lp, "a") if lp else None
        self._start()

    def _start(self):
        self.p = subprocess.Popen(self.cmd, stdin=subprocess.PIPE, stdout=subprocess.PIPE,
                                  stderr=subprocess.DEVNULL, text=True, bufsize=1)

    def ask(self, line):
        """One request, one reply. A dead server (abort, not a panic) answers 'abort'."""
        assert "\n" not in line
        self.requests += 1
        if self.log is not None and self.name.startswith("impl"):
            self.log.write(line + "\n")
        try:
            self.p.stdin.write(line + "\n")
            self.p.stdin.flush()
            limit = TIMEOUT["impl" if self.name.startswith("impl") else "model"]
            ready, _, _ = select.select([self.p.stdout], [], [], limit)
            if not ready:
                self.restarts += 1
                self.hangs = getattr(self, "hangs", 0) + 1
                try:
                    self.p.kill()
                    self.p.wait(timeout=10)
                except Exception:
                    pass
                self._start()
                return "hang"
            reply = self.p.stdout.readline()
        except (BrokenPipeError, OSError):
            reply = ""
        if reply == "":
            self.restarts += 1
            try:
                self.p.kill()
            except Exception:
                pass
            self._start()
            return "abort"
        return reply.rstrip("\n")

    def close(self):
        try:
            self.p.stdin.close()
            self.p.wait(timeout=5)
        except Exception:
            try:
                self.p.kill()
            except Exception:
                pass
