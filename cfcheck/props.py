"""Per-property checks: generators, observables compared with the model, judges."""
import copy
import random

from . import chain as ch
from .chain import U64, hx, iv_tok, parse_iv, parse_pair, parse_lift
from .core import Prop, Eval

PROPS = {}


def register(cls):
    PROPS[cls.id] = cls
    return cls


def both(ctx, ev, req):
    i = ctx.impl.ask(req)
    m = ctx.model.ask(req)
    ev.requests.append(req)
    ev.impl.append(i)
    ev.model.append(m)
    return i, m


def head(reply):
    return reply.split(" ")[0] if reply else ""


# ==========================================================================================
# C15 — interval-pair algebra
# ==========================================================================================

def off_of(strand, lo, hi, x):
    return x - lo if strand == "+" else hi - x


def at_off(strand, lo, hi, k):
    return lo + k if strand == "+" else hi - k


@register
class C15(Prop):
    id = "C15"
    title = "Interval-pair algebra: offset-preserving liftover and intersection-exact clamp"
    rule = ("pairs over all four strand combinations with boundary-biased positions (0, 1, mid, 2^32, u64::MAX), "
            "coordinates on/next to both ends, clamp operands that meet the reference interval; a case is non-trivial "
            "when the coordinate lies on the reference interval, or the clamp operand cuts it properly, touches an end "
            "or is empty; distinct = distinct (op, strands, relative position class)")

    def gen_iv(self, rng, name, length=None):
        strand = rng.choice("+-")
        base = rng.choice([0, 0, 1, 5, 100, 2 ** 32, U64 - 50, U64 - 9])
        if length is None:
            length = rng.choice([0, 1, 1, 2, 3, 7, 9])
        lo = base + rng.randint(0, 5)
        if lo + length > U64:
            lo = U64 - length
        return (name, strand, lo, lo + length)

    def cases(self, rng, tier):
        n = 4000 if tier == "quick" else 200000
        for _ in range(n):
            r = self.gen_iv(rng, rng.choice(["a", "b"]))
            same = rng.random() < 0.9
            q = self.gen_iv(rng, rng.choice(["a", "q"]), (r[3] - r[2]) if same else None)
            k = rng.random()
            if k < 0.15:
                yield {"kind": "pair_new", "r": list(r), "q": list(q)}
            elif k < 0.5:
                pos = rng.choice([r[2], r[3], r[2] - 1, r[3] + 1, r[2] + 1, r[3] - 1, rng.randint(0, U64)])
                pos = min(max(pos, 0), U64)
                cn = r[0] if rng.random() < 0.9 else "zz"
                cs = r[1] if rng.random() < 0.85 else ("-" if r[1] == "+" else "+")
                yield {"kind": "pair_lift", "r": list(r), "q": list(q), "c": [cn, cs, pos]}
            else:
                # operand that meets [lo, hi] (shares at least one position), or differs in contig/strand
                lo, hi = r[2], r[3]
                a = rng.choice([lo, hi, lo + 1, hi - 1, rng.randint(lo, hi), max(0, lo - rng.randint(0, 3))])
                a = min(max(a, 0), hi)
                b = rng.choice([lo, hi, a, rng.randint(max(a, lo), hi), min(U64, hi + rng.randint(0, 3))])
                b = max(b, a, lo)
                cn = r[0] if rng.random() < 0.92 else "zz"
                cs = r[1] if rng.random() < 0.92 else ("-" if r[1] == "+" else "+")
                yield {"kind": "pair_clamp", "r": list(r), "q": list(q), "iv": [cn, cs, a, b]}

    def evaluate(self, ctx, case):
        ev = Eval()
        r, q = case["r"], case["q"]
        rt, qt = iv_tok(*r), iv_tok(*q)
        eq = (r[3] - r[2]) == (q[3] - q[2])
        kind = case["kind"]
        if kind == "pair_new":
            i, m = both(ctx, ev, "pair_new %s %s" % (rt, qt))
            if eq and i != "ok %s>%s" % (rt, qt):
                ev.judge = "equal lengths must be accepted unchanged, got: " + i
            if not eq and i != "err counts":
                ev.judge = "unequal lengths must be refused, got: " + i
            ev.nontrivial = ("new", r[1], q[1], eq)
        elif kind == "pair_lift":
            c = case["c"]
            i, m = both(ctx, ev, "pair_lift %s %s %s:%s:%d" % (rt, qt, hx(c[0]), c[1], c[2]))
            if eq:
                inside = c[0] == r[0] and c[1] == r[1] and r[2] <= c[2] <= r[3]
                if inside:
                    k = off_of(r[1], r[2], r[3], c[2])
                    want = "some %s:%s:%d" % (hx(q[0]), q[1], at_off(q[1], q[2], q[3], k))
                    ev.nontrivial = ("lift", r[1], q[1], "start" if k == 0 else "end" if k == r[3] - r[2] else "mid")
                else:
                    want = "none"
                if i != want:
                    ev.judge = "lift: expected %s, got %s" % (want, i)
        else:
            iv = case["iv"]
            i, m = both(ctx, ev, "pair_clamp %s %s %s" % (rt, qt, iv_tok(*iv)))
            if eq:
                if iv[0] != r[0]:
                    want = "err contig"
                elif iv[1] != r[1]:
                    want = "err strand"
                else:
                    lo, hi = max(r[2], iv[2]), min(r[3], iv[3])
                    assert lo <= hi, case
                    o1 = off_of(r[1], r[2], r[3], lo)
                    o2 = off_of(r[1], r[2], r[3], hi)
                    o1, o2 = min(o1, o2), max(o1, o2)
                    qa, qb = at_off(q[1], q[2], q[3], o1), at_off(q[1], q[2], q[3], o2)
                    want = "ok %s>%s" % (iv_tok(r[0], r[1], lo, hi), iv_tok(q[0], q[1], min(qa, qb), max(qa, qb)))
                    cls = ("empty" if lo == hi else "whole" if (lo, hi) == (r[2], r[3]) else "cut")
                    ev.nontrivial = ("clamp", r[1], q[1], cls, lo == r[2], hi == r[3])
                if i != want:
                    ev.judge = "clamp: expected %s, got %s" % (want, i)
        ev.tags.append(kind + ":" + head(ev.impl[-1]))
        if ev.impl[-1] != ev.model[-1]:
            ev.corr = "impl %r vs model %r" % (ev.impl[-1], ev.model[-1])
        return ev

    def shrink(self, case):
        for key in ("r", "q", "iv"):
            if key in case:
                v = case[key]
                for d in (v[2], v[2] // 2, 1):
                    if d and v[2] - d >= 0:
                        c = copy.deepcopy(case)
                        for k2 in ("r", "iv") if key in ("r", "iv") else ("q",):
                            if k2 in c and c[k2][2] - d >= 0:
                                c[k2][2] -= d
                                c[k2][3] -= d
                        if "c" in c and key == "r" and c["c"][2] - d >= 0:
                            c["c"][2] -= d
                        yield c

    def neighbours(self, case, rng):
        for key in ("r", "q", "iv", "c"):
            if key in case:
                for idx in ((2, 3) if key != "c" else (2,)):
                    for d in (-1, 1):
                        c = copy.deepcopy(case)
                        c[key][idx] += d
                        if c[key][idx] < 0 or c[key][idx] > U64:
                            continue
                        if key != "c" and c[key][2] > c[key][3]:
                            continue
                        if c["kind"] == "pair_clamp" and c["iv"][0] == c["r"][0] and c["iv"][1] == c["r"][1] \
                                and max(c["r"][2], c["iv"][2]) > min(c["r"][3], c["iv"][3]):
                            continue
                        yield c
