"""Per-property checks: generators, observables compared with the model, judges."""
import copy
import random

from . import chain as ch
from .chain import U64, hx, iv_tok, parse_iv, parse_pair, parse_lift
from .core import Prop, Eval

PROPS = {}


def register(cls):
    PROPS[cls.id] = cls
    return cls


def both(ctx, ev, req):
    i = ctx.impl.ask(req)
    m = ctx.model.ask(req)
    ev.requests.append(req)
    ev.impl.append(i)
    ev.model.append(m)
    if i == "hang" and m != "hang" and not ev.corr:
        # the server was killed after the time limit (proc.TIMEOUT): the model answers, the implementation does not
        ev.corr = "the implementation did not answer within the time limit (neither a value nor an error): %s" % req[:200]
    return i, m


def head(reply):
    return reply.split(" ")[0] if reply else ""


# ==========================================================================================
# C15 — interval-pair algebra
# ==========================================================================================

def off_of(strand, lo, hi, x):
    return x - lo if strand == "+" else hi - x


def at_off(strand, lo, hi, k):
    return lo + k if strand == "+" else hi - k


@register
class C15(Prop):
    id = "C15"
    title = "Interval-pair algebra: offset-preserving liftover and intersection-exact clamp"
    rule = ("pairs over all four strand combinations with boundary-biased positions (0, 1, mid, 2^32, u64::MAX), "
            "coordinates on/next to both ends, clamp operands that meet the reference interval; a case is non-trivial "
            "when the coordinate lies on the reference interval, or the clamp operand cuts it properly, touches an end "
            "or is empty; distinct = distinct (op, pair, coordinate / operand)")

    def gen_iv(self, rng, name, length=None):
        strand = rng.choice("+-")
        base = rng.choice([0, 0, 1, 5, 100, 2 ** 32, U64 - 50, U64 - 9])
        if length is None:
            length = rng.choice([0, 1, 1, 2, 3, 7, 9])
        lo = base + rng.randint(0, 5)
        if lo + length > U64:
            lo = U64 - length
        return (name, strand, lo, lo + length)

    def cases(self, rng, tier):
        n = 4000 if tier == "quick" else 200000
        for _ in range(n):
            r = self.gen_iv(rng, rng.choice(["a", "b"]))
            if rng.random() < 0.06:
                # very long intervals: lengths around 2^63 and up to u64::MAX (where a length no longer fits a signed
                # 64-bit number and differences wrap)
                ln = rng.choice([2 ** 63 - 5, 2 ** 63 - 1, 2 ** 63, 2 ** 63 + 1, 2 ** 63 + 5, U64 - 1, U64, 2 ** 62, 3 * 2 ** 62])
                lo = rng.randint(0, U64 - ln) if rng.random() < 0.5 else 0
                r = (r[0], r[1], lo, lo + ln)
            same = rng.random() < 0.9
            if not same and rng.random() < 0.3:
                # unequal lengths that are congruent under wrap-around: L and 2^64 - L, L and L ± 2^63, L and L + 1
                L = r[3] - r[2]
                for alt in rng.sample([2 ** 64 - L, abs(L - 2 ** 63), L + 2 ** 63, L + 1, L + 2 ** 32], 5):
                    if 0 <= alt <= U64 and alt != L:
                        qlo = rng.randint(0, U64 - alt) if rng.random() < 0.5 else 0
                        yield {"kind": "pair_new", "r": list(r), "q": [rng.choice(["a", "q"]), rng.choice("+-"), qlo, qlo + alt]}
                        break
            q = self.gen_iv(rng, rng.choice(["a", "q"]), (r[3] - r[2]) if same else None)
            k = rng.random()
            if k < 0.15:
                yield {"kind": "pair_new", "r": list(r), "q": list(q)}
            elif k < 0.5:
                pos = rng.choice([r[2], r[3], r[2] - 1, r[3] + 1, r[2] + 1, r[3] - 1, rng.randint(0, U64)])
                pos = min(max(pos, 0), U64)
                cn = r[0] if rng.random() < 0.9 else "zz"
                cs = r[1] if rng.random() < 0.85 else ("-" if r[1] == "+" else "+")
                yield {"kind": "pair_lift", "r": list(r), "q": list(q), "c": [cn, cs, pos]}
            else:
                # operand that meets [lo, hi] (shares at least one position), or differs in contig/strand
                lo, hi = r[2], r[3]
                a = rng.choice([lo, hi, lo + 1, hi - 1, rng.randint(lo, hi), max(0, lo - rng.randint(0, 3))])
                a = min(max(a, 0), hi)
                b = rng.choice([lo, hi, a, rng.randint(max(a, lo), hi), min(U64, hi + rng.randint(0, 3))])
                b = max(b, a, lo)
                cn = r[0] if rng.random() < 0.92 else "zz"
                cs = r[1] if rng.random() < 0.92 else ("-" if r[1] == "+" else "+")
                case = {"kind": "pair_clamp", "r": list(r), "q": list(q), "iv": [cn, cs, a, b]}
                if rng.random() < 0.5:
                    # ... and then lift coordinates through the CLAMPED pair: around its ends, around the ends of
                    # the original pair (which the clamped pair must have forgotten), anywhere
                    l2, h2 = max(lo, a), min(hi, b)
                    cand = [l2, h2, l2 - 1, h2 + 1, l2 + 1, h2 - 1, lo, hi, lo - 1, hi + 1, rng.randint(lo, hi), rng.randint(0, U64)]
                    case["then_lift"] = [min(max(x, 0), U64) for x in rng.sample(cand, rng.randint(1, 5))]
                yield case
                if same and cn == r[0] and cs == r[1] and rng.random() < 0.4:
                    # C15_clamp_nested: a second operand inside the first one that still meets the pair; clamping to the
                    # outer one first and then to the inner one must equal clamping to the inner one directly
                    l2, h2 = max(lo, a), min(hi, b)
                    a2 = rng.choice([a, l2, h2, rng.randint(a, h2)])
                    b2 = rng.choice([b, l2, h2, max(a2, l2), rng.randint(max(a2, l2), b)])
                    b2 = max(b2, a2, l2)
                    if (a2, b2) == (a, b) and b - a > 1 and rng.random() < 0.8:
                        a2 = rng.randint(a, h2)
                        b2 = rng.randint(max(a2, l2), b)
                    yield {"kind": "pair_clamp2", "r": list(r), "q": list(q), "iv": [cn, cs, a, b], "iv2": [cn, cs, a2, b2]}

    def evaluate(self, ctx, case):
        ev = Eval()
        r, q = case["r"], case["q"]
        rt, qt = iv_tok(*r), iv_tok(*q)
        eq = (r[3] - r[2]) == (q[3] - q[2])
        kind = case["kind"]
        if kind == "pair_new":
            i, m = both(ctx, ev, "pair_new %s %s" % (rt, qt))
            if eq and i != "ok %s>%s" % (rt, qt):
                ev.judge = "equal lengths must be accepted unchanged, got: " + i
            if not eq and i != "err counts":
                ev.judge = "unequal lengths must be refused, got: " + i
            ev.nontrivial = ("new", tuple(r), tuple(q))
        elif kind == "pair_lift":
            c = case["c"]
            i, m = both(ctx, ev, "pair_lift %s %s %s:%s:%d" % (rt, qt, hx(c[0]), c[1], c[2]))
            if eq:
                inside = c[0] == r[0] and c[1] == r[1] and r[2] <= c[2] <= r[3]
                if inside:
                    k = off_of(r[1], r[2], r[3], c[2])
                    want = "some %s:%s:%d" % (hx(q[0]), q[1], at_off(q[1], q[2], q[3], k))
                    ev.nontrivial = ("lift", tuple(r), tuple(q), tuple(c))
                else:
                    want = "none"
                if i != want:
                    ev.judge = "lift: expected %s, got %s" % (want, i)
        elif kind == "pair_clamp2":
            iv, iv2 = case["iv"], case["iv2"]
            i1, _ = both(ctx, ev, "pair_clamp %s %s %s" % (rt, qt, iv_tok(*iv)))
            i2, _ = both(ctx, ev, "pair_clamp %s %s %s" % (rt, qt, iv_tok(*iv2)))
            if i1.startswith("ok ") and ">" in i1:
                r1, q1 = i1[3:].split(">", 1)
                i3, m3 = both(ctx, ev, "pair_clamp %s %s %s" % (r1, q1, iv_tok(*iv2)))
                if i3 != i2:
                    ev.judge = "clamp to %s then to %s inside it: %s, but clamping to the inner operand directly: %s" % (iv, iv2, i3, i2)
                ev.nontrivial = ("clamp2", tuple(r), tuple(q), tuple(iv), tuple(iv2))
                ev.tags.append("clamp2:" + ("same" if iv == iv2 else "inner"))
                for a_, b_ in zip(ev.impl, ev.model):
                    if a_ != b_:
                        ev.corr = "impl %r vs model %r" % (a_, b_)
            elif eq:
                ev.judge = "clamp: an operand that meets the reference interval was refused: " + i1
        else:
            iv = case["iv"]
            then = case.get("then_lift")
            if then:
                i, m = both(ctx, ev, "pair_clamp_lift %s %s %s %s" % (rt, qt, iv_tok(*iv), ",".join("%s:%s:%d" % (hx(r[0]), r[1], x) for x in then)))
                parts = i.split(" ; ")
                i, lifted = parts[0], parts[1:]
            else:
                i, m = both(ctx, ev, "pair_clamp %s %s %s" % (rt, qt, iv_tok(*iv)))
            if eq:
                if iv[0] != r[0]:
                    want = "err contig"
                elif iv[1] != r[1]:
                    want = "err strand"
                else:
                    lo, hi = max(r[2], iv[2]), min(r[3], iv[3])
                    assert lo <= hi, case
                    o1 = off_of(r[1], r[2], r[3], lo)
                    o2 = off_of(r[1], r[2], r[3], hi)
                    o1, o2 = min(o1, o2), max(o1, o2)
                    qa, qb = at_off(q[1], q[2], q[3], o1), at_off(q[1], q[2], q[3], o2)
                    want = "ok %s>%s" % (iv_tok(r[0], r[1], lo, hi), iv_tok(q[0], q[1], min(qa, qb), max(qa, qb)))
                    cls = ("empty" if lo == hi else "whole" if (lo, hi) == (r[2], r[3]) else "cut")
                    ev.nontrivial = ("clamp", tuple(r), tuple(q), tuple(iv))
                    ev.tags.append("clamp:%s%s:%s" % (r[1], q[1], cls))
                if i != want:
                    ev.judge = "clamp: expected %s, got %s" % (want, i)
                elif then and want.startswith("ok"):
                    # the clamped pair is a pair like any other: [lo, hi] -> [min(qa,qb), max(qa,qb)]
                    ql, qh = min(qa, qb), max(qa, qb)
                    if len(lifted) != len(then):
                        ev.judge = "clamp then lift: %d answers for %d coordinates" % (len(lifted), len(then))
                    for x, got in zip(then, lifted):
                        if lo <= x <= hi:
                            wl = "some %s:%s:%d" % (hx(q[0]), q[1], at_off(q[1], ql, qh, off_of(r[1], lo, hi, x)))
                        else:
                            wl = "none"
                        if got != wl:
                            ev.judge = "lift through the clamped pair %s at %d: expected %s, got %s" % (want[3:], x, wl, got)
                            break
                    ev.tags.append("clamp-then-lift")
        ev.tags.append(kind + ":" + head(ev.impl[-1]))
        if ev.impl[-1] != ev.model[-1]:
            ev.corr = "impl %r vs model %r" % (ev.impl[-1], ev.model[-1])
        return ev

    def shrink(self, case):
        for key in ("r", "q", "iv"):
            if key in case:
                v = case[key]
                for d in (v[2], v[2] // 2, 1):
                    if d and v[2] - d >= 0:
                        c = copy.deepcopy(case)
                        if key in ("r", "iv") and "iv2" in c and c["iv2"][2] - d < 0:
                            continue
                        for k2 in ("r", "iv", "iv2") if key in ("r", "iv") else ("q",):
                            if k2 in c and c[k2][2] - d >= 0:
                                c[k2][2] -= d
                                c[k2][3] -= d
                        if "c" in c and key == "r" and c["c"][2] - d >= 0:
                            c["c"][2] -= d
                        yield c

    def neighbours(self, case, rng):
        for key in ("r", "q", "iv", "iv2", "c"):
            if key in case:
                for idx in ((2, 3) if key != "c" else (2,)):
                    for d in (-1, 1):
                        c = copy.deepcopy(case)
                        c[key][idx] += d
                        if c[key][idx] < 0 or c[key][idx] > U64:
                            continue
                        if key != "c" and c[key][2] > c[key][3]:
                            continue
                        if c["kind"] == "pair_clamp2":
                            i1, i2, rr = c["iv"], c["iv2"], c["r"]
                            l2, h2 = max(rr[2], i1[2]), min(rr[3], i1[3])
                            if not (l2 <= h2 and i1[2] <= i2[2] <= i2[3] <= i1[3] and i2[2] <= h2 and i2[3] >= l2):
                                continue
                        if c["kind"] == "pair_clamp" and c["iv"][0] == c["r"][0] and c["iv"][1] == c["r"][1] \
                                and max(c["r"][2], c["iv"][2]) > min(c["r"][3], c["iv"][3]):
                            continue
                        yield c


# ==========================================================================================
# liftover-based properties: shared machinery
# ==========================================================================================

def ms(pairs):
    return sorted(pairs)


def parse_liftover_reply(reply):
    """-> (build_reply, [ (tag, [pairs]) per interval ])"""
    parts = reply.split(" ; ")
    return parts[0], [parse_lift(p) for p in parts[1:]]


def lift_obs(reply):
    """observable compared with the model: build class + per interval tag + multiset of pairs"""
    b, ls = parse_liftover_reply(reply)
    return (b, [(t, ms(p)) for t, p in ls])


class LiftProp(Prop):
    zero_prob = 0.0
    nonempty = False
    n_files = {"quick": 250, "thorough": 15000}
    n_ivs = 14
    big_prob = 0.08
    split_prob = 0.08
    exhaustive_small = False

    def gen_chains(self, rng):
        r = rng.random()
        if r < self.big_prob:
            return ch.gen_big_file(rng)
        if r < self.big_prob + 0.03:
            return ch.gen_many(rng)
        return ch.gen_file(rng, zero_prob=self.zero_prob, odd_names=True)

    def cases(self, rng, tier):
        for _ in range(self.n_files[tier]):
            chains = self.gen_chains(rng)
            if rng.random() < self.split_prob:
                # one chain cut in two (a chain continued by the next one): still well-formed, same alignment
                chains = ch.split_chain(rng, chains)
            style = ch.gen_style(rng)
            ivs = [list(ch.gen_interval(rng, chains, nonempty=self.nonempty)) for _ in range(self.n_ivs)]
            yield {"kind": "lift", "chains": [ch.chain_to_dict(c) for c in chains],
                   "style": ch.style_to_dict(style), "ivs": ivs}
        if tier == "thorough" and self.exhaustive_small:
            for _ in range(60):
                chains = ch.gen_file(rng, max_chains=3, long_prob=0.05, zero_prob=self.zero_prob)
                for name in sorted(set(c.ref.name for c in chains)):
                    size = max(c.ref.size for c in chains if c.ref.name == name)
                    if size > 24:
                        continue
                    ivs = [list(iv) for iv in ch.all_intervals(name, size) if not self.nonempty or iv[2] < iv[3]]
                    for i in range(0, len(ivs), 60):
                        yield {"kind": "lift", "chains": [ch.chain_to_dict(c) for c in chains],
                               "style": ch.PLAIN, "ivs": ivs[i:i + 60]}

    def src(self, case):
        return ch.src_one(ch.render_case(case["chains"], case.get("style")))

    def ask_lift(self, ctx, ev, case, ivs=None):
        ivs = case["ivs"] if ivs is None else ivs
        req = "liftover %s %s" % (self.src(case), ",".join(iv_tok(*iv) for iv in ivs))
        i, m = both(ctx, ev, req)
        if lift_obs(i) != lift_obs(m):
            ev.corr = "liftover answers differ: impl %r vs model %r" % (i[:400], m[:400])
        return i, m

    def shrink(self, case):
        if case["kind"] == "lapper":
            for k in range(len(case["ivs"])):
                c = copy.deepcopy(case)
                del c["ivs"][k]
                yield c
            return
        for cs in ch.shrink_chains(case["chains"], allow_zero=self.zero_prob > 0):
            c = copy.deepcopy(case)
            c["chains"] = cs
            yield c
        if case.get("style") != ch.PLAIN:
            c = copy.deepcopy(case)
            c["style"] = ch.PLAIN
            yield c
        for i in range(len(case["ivs"])):
            if len(case["ivs"]) > 1:
                c = copy.deepcopy(case)
                c["ivs"] = [case["ivs"][i]]
                yield c

    def neighbours(self, case, rng):
        if case["kind"] == "lapper":
            return
        for i, iv in enumerate(case["ivs"]):
            for idx in (2, 3):
                for d in (-1, 1):
                    c = copy.deepcopy(case)
                    c["ivs"] = [list(iv)]
                    c["ivs"][0][idx] += d
                    if 0 <= c["ivs"][0][2] <= c["ivs"][0][3] <= U64 and (not self.nonempty or c["ivs"][0][2] < c["ivs"][0][3]):
                        yield c
            c = copy.deepcopy(case)
            c["ivs"] = [[iv[0], "-" if iv[1] == "+" else "+", iv[2], iv[3]]]
            yield c
        chains = [ch.chain_from_dict(c) for c in case["chains"]]
        for name in sorted(set(c.ref.name for c in chains)):
            pts = ch.boundaries(chains, name)
            ivs = []
            for a in pts:
                for b in pts:
                    for da in (-1, 0, 1):
                        for db in (-1, 0, 1):
                            lo, hi = a + da, b + db
                            if 0 <= lo <= hi <= U64 and (not self.nonempty or lo < hi):
                                ivs.append([name, "+", lo, hi])
                                ivs.append([name, "-", lo, hi])
            rng.shuffle(ivs)
            for i in range(0, min(len(ivs), 400), 40):
                c = copy.deepcopy(case)
                c["ivs"] = ivs[i:i + 40]
                yield c

    def tag_file(self, ev, case):
        cs = case["chains"]
        ev.tags.append("chains=%d" % min(len(cs), 5))
        ev.tags.append("blocks=%d" % min(sum(len(c["blocks"]) for c in cs), 12))
        for c in cs:
            ev.tags.append("strands=%s%s" % (c["ref"][2], c["qry"][2]))


def block_of(blocks, pair):
    """the spec blocks (8-tuples) a returned pair lies in"""
    out = []
    for b in blocks:
        if b[0] == pair[0] and b[1] == pair[1] and b[2] <= pair[2] and pair[3] <= b[3] and b[4] == pair[4] and b[5] == pair[5]:
            out.append(b)
    return out


@register
class C01(LiftProp):
    id = "C01"
    title = "Liftover soundness: every returned base pairing is a true chain alignment"
    zero_prob = 0.08
    exhaustive_small = True
    rule = ("well-formed files (1-5 chains, 1-6 blocks, gaps 0/1/2/5, all four strand combinations, shared contig names, "
            "zero-size blocks, coordinates near 2^32/2^63/2^64) x intervals biased to block boundaries ±1, zero-length, past "
            "the contig end, unknown contig, both strands; non-trivial = the answer contains a pair that is a proper "
            "sub-range of its block or lies on a '-' side; distinct by (file, interval)")

    def evaluate(self, ctx, case):
        ev = Eval()
        self.tag_file(ev, case)
        i, m = self.ask_lift(ctx, ev, case)
        b, answers = parse_liftover_reply(i)
        if not b.startswith("ok"):
            ev.tags.append("build:" + b.split(" ")[0])
            return ev
        blocks = [bl for c in case["chains"] for bl in ch.chain_blocks(ch.chain_from_dict(c))]
        for iv, (tag, pairs) in zip(case["ivs"], answers):
            ev.tags.append("answer:" + tag)
            if tag == "panic":
                ev.judge = "liftover panicked on %s" % (iv,)
                break
            if tag != "some":
                continue
            req = "spec sound %s %s %s" % (self.src(case), iv_tok(*iv),
                                           " ".join("%s>%s" % (iv_tok(*p[:4]), iv_tok(*p[4:])) for p in pairs))
            r = ctx.model.ask(req)
            ev.requests.append(req)
            if r != "ok":
                ev.judge = "pair not a sub-range of any block of the file / not inside the interval: %s (interval %s)" % (r, iv)
                break
            for p in pairs:
                bs = block_of(blocks, p)
                if bs and ((p[3] - p[2]) < min(b[3] - b[2] for b in bs) or p[1] == "-" or p[5] == "-"):
                    ev.nontrivial = (case_key(case), tuple(iv))
        if not ev.judge and case["ivs"]:
            # results fed back into the pair API: a returned pair lifts its own reference ends to its own query
            # ends, and clamping it once more to the request changes nothing
            req = "liftthru %s %s" % (self.src(case), ",".join(iv_tok(*iv) for iv in case["ivs"]))
            i2, m2 = both(ctx, ev, req)
            if i2 != m2 and not ev.corr:
                ev.corr = "results fed back into the pair API differ: impl %r vs model %r" % (i2[:400], m2[:400])
            for iv, ans in zip(case["ivs"], i2.split(" ; ")[1:]):
                if ans == "panic":
                    ev.judge = "feeding the answer for %s back into the pair API panicked" % (iv,)
                    break
                if not ans.startswith("some "):
                    continue
                for item in ans[5:].split(" | "):
                    pr, a, b_, again = item.split(" ")
                    q = pr.split(">")[1]
                    qname, qstrand, span = q.rsplit(":", 2)
                    qa, qb = span.split("-")
                    if a != "%s:%s:%s" % (qname, qstrand, qa) or b_ != "%s:%s:%s" % (qname, qstrand, qb):
                        ev.judge = "returned pair %s lifts its reference ends to %s and %s" % (pr, a, b_)
                    elif again != pr:
                        ev.judge = "returned pair %s clamped once more to the request %s becomes %s" % (pr, iv, again)
                if ev.judge:
                    break
            ev.tags.append("fed-back")
        return ev


def case_key(case):
    import hashlib, json
    return hashlib.md5(json.dumps([case["chains"], case.get("style")], sort_keys=True).encode()).hexdigest()[:10]


@register
class C02(LiftProp):
    id = "C02"
    title = "Liftover completeness and exact clipping; 'no mapping' iff nothing aligns"
    nonempty = True
    exhaustive_small = True
    rule = ("well-formed files without zero-size blocks (one long block next to many short ones with probability 0.15 "
            "per block, adjacent blocks, overlapping chains) x non-empty intervals biased to block boundaries ±1, gaps, unknown "
            "contigs, both strands; thorough adds every (start,end) pair x both strands on contigs of size <= 24; "
            "non-trivial = the contig has >= 2 blocks and the interval touches or cuts a block boundary; distinct by (file, interval)")

    def cases(self, rng, tier):
        # the interval tree of the locked rust-lapper itself against the Lean `Lapper` (find_eq_filter):
        # one long interval among many short ones, duplicates, zero-length, queries at every boundary
        for _ in range(300 if tier == "quick" else 20000):
            n = rng.randint(0, 14)
            ivs = []
            for _ in range(n):
                a = rng.randint(0, 40)
                ln = rng.choice([0, 1, 1, 2, 3, 5]) if rng.random() < 0.85 else rng.randint(10, 60)
                ivs.append([a, a + ln])
            if ivs and rng.random() < 0.3:
                ivs.append(list(rng.choice(ivs)))
            pts = sorted(set(x for iv in ivs for x in iv)) or [0]
            q = [rng.choice(pts) + rng.choice([-1, 0, 1]), rng.choice(pts) + rng.choice([-1, 0, 1])]
            q = [max(0, min(q)), max(0, max(q))]
            yield {"kind": "lapper", "ivs": ivs, "q": q}
        for c in LiftProp.cases(self, rng, tier):
            yield c

    def evaluate(self, ctx, case):
        ev = Eval()
        if case["kind"] == "lapper":
            req = "lapper %d %d %s" % (case["q"][0], case["q"][1], " ".join("%d-%d" % tuple(iv) for iv in case["ivs"]))
            i, m = both(ctx, ev, req.strip())
            if i != m:
                ev.corr = "rust-lapper %r vs the Lean Lapper %r" % (i[:200], m[:200])
            s, e = case["q"]
            order = sorted(range(len(case["ivs"])), key=lambda k: (case["ivs"][k][0], case["ivs"][k][1], k))
            want = "ids" + "".join(" %d" % k for k in order if case["ivs"][k][0] < e and case["ivs"][k][1] > s)
            if i != want:
                ev.judge = "interval tree: expected %s, got %s" % (want, i)
            ev.tags.append("lapper")
            if len(case["ivs"]) >= 3 and want != "ids":
                ev.nontrivial = case_key2(case)
            return ev
        self.tag_file(ev, case)
        i, m = self.ask_lift(ctx, ev, case)
        req = "spec hits %s %s" % (self.src(case), ",".join(iv_tok(*iv) for iv in case["ivs"]))
        s = ctx.model.ask(req)
        ev.requests.append(req)
        b, answers = parse_liftover_reply(i)
        sb, sanswers = parse_liftover_reply(s)
        if sb != "wf":
            ev.tags.append("spec:" + sb)
            return ev
        if not b.startswith("ok"):
            ev.judge = "well-formed file not accepted: " + b
            return ev
        chains = [ch.chain_from_dict(c) for c in case["chains"]]
        for iv, (tag, pairs), (stag, spairs) in zip(case["ivs"], answers, sanswers):
            ev.tags.append("answer:" + tag)
            if tag != stag or ms(pairs) != ms(spairs):
                ev.judge = "interval %s: implementation %s %s, specification %s %s" % (iv, tag, ms(pairs), stag, ms(spairs))
                break
            pts = ch.boundaries(chains, iv[0])
            nblocks = sum(len(c.blocks) for c in chains if c.ref.name == iv[0])
            if nblocks >= 2 and (iv[2] in pts or iv[3] in pts or any(iv[2] < p < iv[3] for p in pts)):
                ev.nontrivial = (case_key(case), tuple(iv))
        return ev


def cut_pair(p, at):
    """split a pair (8-tuple, forward coordinates) at reference forward position `at`; -> [parts]"""
    rn, rs, rlo, rhi, qn, qs, qlo, qhi = p
    if at <= rlo or at >= rhi:
        return [p]
    # strand-directed offset of the cut from the reference start
    k = at - rlo if rs == "+" else rhi - at
    n = rhi - rlo
    def sub(lo, hi, strand, o1, o2):
        return (lo + o1, lo + o2) if strand == "+" else (hi - o2, hi - o1)
    parts = []
    for o1, o2 in ((0, k), (k, n)):
        a = sub(rlo, rhi, rs, o1, o2)
        b = sub(qlo, qhi, qs, o1, o2)
        parts.append((rn, rs, a[0], a[1], qn, qs, b[0], b[1]))
    return parts


@register
class C09(LiftProp):
    id = "C09"
    title = "Lifting an interval equals lifting its parts, down to single bases"
    zero_prob = 0.05
    n_ivs = 6
    rule = ("well-formed files x intervals x split points on block boundaries, inside gaps, ±1 and uniform; the judge cuts "
            "the whole answer at the split point and compares multisets with the two part answers (empty pairs dropped), and "
            "checks that no pair leaves the interval; non-trivial = the whole answer has a pair that the split point cuts "
            "properly; distinct by (file, interval, split); additionally (C09_restrict) a nested sub-interval [p1,p2) with both "
            "ends chosen like split points: its answer must equal the whole answer cut at p1 and p2 and kept to the middle")

    def cases(self, rng, tier):
        for case in LiftProp.cases(self, rng, tier):
            chains = [ch.chain_from_dict(c) for c in case["chains"]]
            trip = []
            for iv in case["ivs"][:self.n_ivs]:
                lo, hi = iv[2], iv[3]
                pts = [p for p in ch.boundaries(chains, iv[0]) if lo <= p <= hi] if iv[0] != "nochr" else []
                cand = [lo, hi, (lo + hi) // 2] + pts + [p + d for p in pts for d in (-1, 1) if lo <= p + d <= hi]
                p = rng.choice(cand) if rng.random() < 0.8 else rng.randint(lo, hi)
                q1 = rng.choice(cand) if rng.random() < 0.8 else rng.randint(lo, hi)
                q2 = rng.choice(cand) if rng.random() < 0.8 else rng.randint(lo, hi)
                trip.append([list(iv), p, min(q1, q2), max(q1, q2)])
            case["splits"] = trip
            del case["ivs"]
            case["kind"] = "split"
            yield case

    def evaluate(self, ctx, case):
        ev = Eval()
        self.tag_file(ev, case)
        ivs = []
        for sp in case["splits"]:
            iv, p = sp[0], sp[1]
            ivs += [iv, [iv[0], iv[1], iv[2], p], [iv[0], iv[1], p, iv[3]]]
        nested = [(k, sp[2], sp[3]) for k, sp in enumerate(case["splits"]) if len(sp) >= 4]
        for k, p1, p2 in nested:
            iv = case["splits"][k][0]
            ivs.append([iv[0], iv[1], p1, p2])
        i, m = self.ask_lift(ctx, ev, case, ivs)
        b, answers = parse_liftover_reply(i)
        if not b.startswith("ok"):
            ev.tags.append("build:" + b.split(" ")[0])
            return ev
        for j, (k, p1, p2) in enumerate(nested):
            iv = case["splits"][k][0]
            t0, whole = answers[3 * k]
            t3, sub = answers[3 * len(case["splits"]) + j]
            if "panic" in (t0, t3):
                ev.judge = "panic on %s sub-interval %d-%d" % (iv, p1, p2)
                break
            mid = [r for pr in whole for q in cut_pair(pr, p1) for r in cut_pair(q, p2)]
            mid = [q for q in mid if q[3] > q[2] and p1 <= q[2] and q[3] <= p2]
            got = [q for q in sub if q[3] > q[2]]
            if ms(mid) != ms(got):
                ev.judge = "interval %s, sub-interval %d-%d: whole kept to it = %s, its own answer = %s" % (iv, p1, p2, ms(mid), ms(got))
                break
            ev.tags.append("nested:" + ("empty" if not got else "cut" if ms(got) != ms([q for q in whole if q[3] > q[2]]) else "all"))
        for k, sp in enumerate(case["splits"]):
            if ev.judge:
                break
            iv, p = sp[0], sp[1]
            (t0, whole), (t1, a), (t2, bb) = answers[3 * k:3 * k + 3]
            if "panic" in (t0, t1, t2):
                ev.judge = "panic on %s split %d" % (iv, p)
                break
            cut = [q for pr in whole for q in cut_pair(pr, p)]
            cut = [q for q in cut if q[3] > q[2]]
            parts = [q for q in a + bb if q[3] > q[2]]
            if ms(cut) != ms(parts):
                ev.judge = "interval %s split at %d: whole cut = %s, parts = %s" % (iv, p, ms(cut), ms(parts))
                break
            for pr in whole:
                if pr[0] != iv[0] or pr[1] != iv[1] or pr[2] < iv[2] or pr[3] > iv[3]:
                    ev.judge = "pair %s reaches outside the interval %s" % (pr, iv)
            if any(pr[2] < p < pr[3] for pr in whole):
                ev.nontrivial = (case_key(case), tuple(iv), p)
            ev.tags.append("whole:" + t0)
        return ev

    def shrink(self, case):
        for cs in ch.shrink_chains(case["chains"]):
            c = copy.deepcopy(case)
            c["chains"] = cs
            yield c
        for i in range(len(case["splits"])):
            if len(case["splits"]) > 1:
                c = copy.deepcopy(case)
                c["splits"] = [case["splits"][i]]
                yield c

    def neighbours(self, case, rng):
        for sp in case["splits"]:
            iv, p = sp[0], sp[1]
            if len(sp) >= 4:
                for d1 in (-1, 0, 1):
                    for d2 in (-1, 0, 1):
                        if iv[2] <= sp[2] + d1 <= sp[3] + d2 <= iv[3]:
                            c = copy.deepcopy(case)
                            c["splits"] = [[iv, p, sp[2] + d1, sp[3] + d2]]
                            yield c
            for d in (-2, -1, 1, 2):
                if iv[2] <= p + d <= iv[3]:
                    c = copy.deepcopy(case)
                    c["splits"] = [[iv, p + d]]
                    yield c
            for q in range(iv[2], min(iv[3], iv[2] + 60) + 1):
                c = copy.deepcopy(case)
                c["splits"] = [[iv, q]]
                yield c


def swap_chain(d):
    return {"score": d["score"], "id": d["id"], "ref": list(d["qry"]), "qry": list(d["ref"]),
            "blocks": [[b[0], b[2], b[1]] for b in d["blocks"]]}


@register
class C10(LiftProp):
    id = "C10"
    title = "Exchanging reference and query roles inverts the mapping"
    rule = ("well-formed files (all four strand combinations, multi-block, gapped, multi-chain) and their role-exchanged twins; "
            "for the first, last and a random interior base of every block: lift the single base x in the file, then lift every "
            "image y in the twin and require x among the images; non-trivial = block on a '-' side or with non-zero gaps before it; "
            "distinct by (file, base); additionally (C10_machine_intervals) whole requests from inside one block to inside another: "
            "for every pair p of the answer, lifting p's query side in the twin must return the reversed pair exactly")
    n_files = {"quick": 150, "thorough": 8000}

    def cases(self, rng, tier):
        for _ in range(self.n_files[tier]):
            chains = self.gen_chains(rng)
            bases = []
            for c in chains:
                for b in ch.chain_blocks(c):
                    if b[3] > b[2]:
                        for pos in sorted(set([b[2], b[3] - 1, rng.randint(b[2], b[3] - 1)])):
                            bases.append([b[0], b[1], pos])
            rng.shuffle(bases)
            # C10_machine_intervals: whole requests from inside one block of a chain to inside a later one
            ivs2 = []
            for c in chains:
                bl = [b for b in ch.chain_blocks(c) if b[3] > b[2]]
                for _ in range(2):
                    if bl:
                        b1, b2 = rng.choice(bl), rng.choice(bl)
                        lo = rng.choice([min(b1[2], b2[2]), rng.randint(b1[2], b1[3] - 1)])
                        hi = rng.choice([max(b1[3], b2[3]), rng.randint(b2[2] + 1, b2[3])])
                        if lo < hi:
                            ivs2.append([b1[0], b1[1], lo, hi])
            rng.shuffle(ivs2)
            yield {"kind": "swap", "chains": [ch.chain_to_dict(c) for c in chains], "style": ch.style_to_dict(ch.gen_style(rng)),
                   "bases": bases[:12], "ivs2": ivs2[:4]}

    def evaluate(self, ctx, case):
        ev = Eval()
        self.tag_file(ev, case)
        if not case["bases"]:
            return ev
        ivs = [[b[0], b[1], b[2], b[2] + 1] for b in case["bases"]]
        i, m = self.ask_lift(ctx, ev, case, ivs)
        b, answers = parse_liftover_reply(i)
        if not b.startswith("ok"):
            ev.tags.append("build:" + b.split(" ")[0])
            return ev
        twin = dict(case)
        twin["chains"] = [swap_chain(c) for c in case["chains"]]
        back = []
        for x, (tag, pairs) in zip(case["bases"], answers):
            for p in pairs:
                if p[3] - p[2] != 1 or p[7] - p[6] != 1:
                    ev.judge = "single-base answer is not a single base: %s" % (p,)
                    return ev
                back.append((x, [p[4], p[5], p[6], p[7]]))
        if not back:
            return ev
        i2, m2 = self.ask_lift(ctx, ev, twin, [y for _, y in back])
        b2, answers2 = parse_liftover_reply(i2)
        if not b2.startswith("ok"):
            ev.judge = "role-exchanged twin of an accepted file is refused: " + b2
            return ev
        for (x, y), (tag, pairs) in zip(back, answers2):
            imgs = [(p[4], p[5], p[6]) for p in pairs]
            if (x[0], x[1], x[2]) not in imgs:
                ev.judge = "x=%s maps to y=%s but the twin maps y to %s" % (x, y, imgs)
                return ev
            if x[1] == "-" or y[1] == "-":
                ev.nontrivial = (case_key(case), tuple(x))
        if case.get("ivs2"):
            i3, m3 = self.ask_lift(ctx, ev, case, case["ivs2"])
            b3, answers3 = parse_liftover_reply(i3)
            whole = [(iv, p) for iv, (tag, pairs) in zip(case["ivs2"], answers3) for p in pairs if p[3] > p[2]]
            if whole:
                i4, m4 = self.ask_lift(ctx, ev, twin, [[p[4], p[5], p[6], p[7]] for _, p in whole])
                b4, answers4 = parse_liftover_reply(i4)
                for (iv, p), (tag, pairs) in zip(whole, answers4):
                    want = tuple(p[4:8]) + tuple(p[0:4])
                    if want not in [tuple(q) for q in pairs]:
                        ev.judge = ("lifting %s gives the pair %s, but lifting its query side in the twin gives %s, which lacks the reversed pair"
                                    % (iv, p, pairs))
                        return ev
                ev.tags.append("intervals:%d" % min(len(whole), 5))
        return ev

    def shrink(self, case):
        for cs in ch.shrink_chains(case["chains"]):
            c = copy.deepcopy(case)
            c["chains"] = cs
            chains = [ch.chain_from_dict(x) for x in cs]
            bases = []
            for cc in chains:
                for b in ch.chain_blocks(cc):
                    if b[3] > b[2]:
                        bases += [[b[0], b[1], b[2]], [b[0], b[1], b[3] - 1]]
            c["bases"] = bases[:12]
            c.pop("ivs2", None)
            yield c
        if case.get("ivs2"):
            for k in range(len(case["ivs2"])):
                c = copy.deepcopy(case)
                c["ivs2"] = [case["ivs2"][k]]
                c["bases"] = []
                yield c

    def neighbours(self, case, rng):
        chains = [ch.chain_from_dict(x) for x in case["chains"]]
        bases = []
        for cc in chains:
            for b in ch.chain_blocks(cc):
                for pos in range(b[2], min(b[3], b[2] + 40)):
                    bases.append([b[0], b[1], pos])
        for i in range(0, len(bases), 12):
            c = copy.deepcopy(case)
            c["bases"] = bases[i:i + 12]
            yield c


@register
class C11(LiftProp):
    id = "C11"
    title = "Chains act independently; results are deterministic and ordered"
    zero_prob = 0.12
    split_prob = 0.3
    n_files = {"quick": 150, "thorough": 8000}
    n_ivs = 10
    rule = ("well-formed files with >= 2 chains x intervals: answer over the file = multiset union of the answers over each chain "
            "alone; a random permutation of the chains gives the same multisets; the file is built twice in-process (fresh "
            "RandomStates) and the two answer sequences must be identical; each answer is sorted by forward reference start; "
            "one case in eight also rebuilds in a fresh process (fresh hash seeds); non-trivial = >= 2 chains contribute to one answer; distinct by (file, interval)")

    def evaluate(self, ctx, case):
        ev = Eval()
        self.tag_file(ev, case)
        i, m = self.ask_lift(ctx, ev, case)
        b, answers = parse_liftover_reply(i)
        if not b.startswith("ok"):
            ev.tags.append("build:" + b.split(" ")[0])
            return ev
        # determinism: rebuild
        i_again = ctx.impl.ask(ev.requests[0])
        if i_again != i:
            ev.judge = "rebuilding from the same bytes changed the answers or their order"
            return ev
        if hash(case_key(case)) % 8 == 0:
            # across processes: a fresh process has fresh hash-map seeds
            from .proc import Server
            fresh = Server([ctx.impl_bin], "impl-fresh")
            try:
                i_fresh = fresh.ask(ev.requests[0])
            finally:
                fresh.close()
            ev.tags.append("fresh-process rebuild")
            if i_fresh != i:
                ev.judge = "rebuilding in a fresh process changed the answers or their order"
                return ev
        for iv, (tag, pairs) in zip(case["ivs"], answers):
            if any(pairs[k][2] > pairs[k + 1][2] for k in range(len(pairs) - 1)):
                ev.judge = "answer for %s is not ordered by forward reference start: %s" % (iv, pairs)
                return ev
        n = len(case["chains"])
        if n >= 2:
            union = [[] for _ in case["ivs"]]
            contributors = [0 for _ in case["ivs"]]
            for k in range(n):
                one = dict(case)
                one["chains"] = [case["chains"][k]]
                ik, mk = self.ask_lift(ctx, ev, one)
                bk, ak = parse_liftover_reply(ik)
                if not bk.startswith("ok"):
                    ev.judge = "a single chain of an accepted file is refused: " + bk
                    return ev
                for j, (t, ps) in enumerate(ak):
                    union[j] += ps
                    contributors[j] += 1 if ps else 0
            for j, (iv, (tag, pairs)) in enumerate(zip(case["ivs"], answers)):
                if ms(pairs) != ms(union[j]):
                    ev.judge = "interval %s: file gives %s, union over single chains gives %s" % (iv, ms(pairs), ms(union[j]))
                    return ev
                if contributors[j] >= 2:
                    ev.nontrivial = (case_key(case), tuple(iv))
            perm = dict(case)
            order = list(range(n))
            random.Random(case_key(case)).shuffle(order)
            perm["chains"] = [case["chains"][k] for k in order]
            ip, mp = self.ask_lift(ctx, ev, perm)
            if [(t, ms(p)) for t, p in parse_liftover_reply(ip)[1]] != [(t, ms(p)) for t, p in answers]:
                ev.judge = "reordering the chains changed an answer"
        return ev


@register
class C16(LiftProp):
    id = "C16"
    title = "Chromosome dictionaries mirror the headers; returned coordinates stay in bounds"
    zero_prob = 0.05
    n_files = {"quick": 250, "thorough": 4000}
    rule = ("well-formed files with contig names shared between the reference and the query side with different sizes, many chains "
            "per contig, plus files redeclaring a contig with another size on one side; judge: both dictionaries equal the "
            "declared (name,size) sets per side, every returned coordinate within [0,size] of its contig in the respective "
            "dictionary, a redeclared size is refused with an error; non-trivial = a name occurs on both sides with different "
            "sizes, or the file redeclares a size; distinct by file")

    def cases(self, rng, tier):
        # a fixed number of files per run (not a matter of chance) in which a block is enlarged by g and the gaps behind
        # it are reduced by g modulo 2^64: wrap-congruent, ill-formed, to be refused
        made = 0
        for case in LiftProp.cases(self, random.Random(rng.random()), tier):
            multi = [i_ for i_, c_ in enumerate(case["chains"]) if len(c_["blocks"]) >= 2]
            if not multi:
                continue
            c = copy.deepcopy(case)
            k = rng.choice(multi)
            bl = c["chains"][k]["blocks"]
            j = rng.randrange(len(bl) - 1)
            g = rng.choice([1, 2, 7, 1000, max(1, c["chains"][k]["ref"][1]), max(1, c["chains"][k]["qry"][1])])
            bl[j][0] = min(U64, bl[j][0] + g)
            bl[j][1] = (bl[j][1] - g) % (2 ** 64)
            bl[j][2] = (bl[j][2] - g) % (2 ** 64)
            c["kind"] = "overshoot"
            for ch_ in c["chains"]:
                c["ivs"].append([ch_["ref"][0], ch_["ref"][2], 0, min(U64, ch_["ref"][1] + 2000)])
            yield c
            made += 1
            if made >= (12 if tier == "quick" else 400):
                break
        for case in LiftProp.cases(self, rng, tier):
            if rng.random() < 0.2 and case["chains"]:
                c = copy.deepcopy(case)
                k = rng.randrange(len(c["chains"]))
                dup = copy.deepcopy(c["chains"][rng.randrange(len(c["chains"]))])
                side = rng.choice(["ref", "qry"])
                dup[side][0] = c["chains"][k][side][0]
                dup[side][1] = min(U64, max(dup[side][4], c["chains"][k][side][1] + rng.choice([-1, 1, 7])))
                if rng.random() < 0.25:
                    # the second declaration differs by exactly 2^64 (a 20-digit number beyond u64::MAX that a wrapping
                    # parser would read as the same size): an unparsable header, hence no machine either
                    dup[side][1] = c["chains"][k][side][1] + 2 ** 64
                if dup[side][1] == c["chains"][k][side][1]:
                    dup[side][1] += 1 if dup[side][1] < U64 else -1
                if dup[side][1] < dup[side][4]:
                    continue
                c["chains"].insert(rng.randrange(len(c["chains"]) + 1), dup)
                c["kind"] = "conflict"
                yield c
            elif rng.random() < 0.12 and case["chains"]:
                # the declared size lowered below the declared end (by one, down to the extent's length, anywhere
                # below): no machine may be built, else its coordinates exceed the size it reports
                c = copy.deepcopy(case)
                k = rng.randrange(len(c["chains"]))
                side = rng.choice(["ref", "qry"])
                start, end = c["chains"][k][side][3], c["chains"][k][side][4]
                if end == 0:
                    yield case
                    continue
                c["chains"][k][side][1] = rng.choice([end - 1, max(0, end - start), max(0, end - start - 1), rng.randint(0, end - 1)])
                c["kind"] = "size-below-end"
                yield c
            elif rng.random() < 0.2 and case["chains"]:
                # records that run PAST the declared end (a block or a gap enlarged, header untouched), on one side or on
                # both: no machine may be built, else it returns coordinates beyond the extent and possibly the size
                c = copy.deepcopy(case)
                k = rng.randrange(len(c["chains"]))
                bl = c["chains"][k]["blocks"]
                j = rng.randrange(len(bl))
                grow = rng.choice([1, 2, 7, 1000, c["chains"][k]["ref"][1], c["chains"][k]["qry"][1]])
                multi = [i_ for i_, c_ in enumerate(c["chains"]) if len(c_["blocks"]) >= 2]
                if multi and rng.random() < 0.7:
                    k = rng.choice(multi)
                    bl = c["chains"][k]["blocks"]
                    j = rng.randrange(len(bl) - 1)
                    grow = rng.choice([1, 2, 7, 1000, c["chains"][k]["ref"][1], c["chains"][k]["qry"][1]])
                field = rng.choice([0, 0, 1, 2]) if j + 1 < len(bl) else 0
                bl[j][field] = min(U64, bl[j][field] + max(1, grow))
                if field == 0 and j + 1 < len(bl) and rng.random() < 0.7:
                    # ... and the gaps behind the enlarged block "take the surplus back" modulo 2^64: every sum is right
                    # again in wrapping arithmetic, and the block still runs past its extent (and possibly the contig)
                    g = max(1, grow)
                    bl[j][1] = (bl[j][1] - g) % (2 ** 64)
                    bl[j][2] = (bl[j][2] - g) % (2 ** 64)
                # ask about the far end of every contig too
                for ch_ in c["chains"]:
                    for side in ("ref",):
                        c["ivs"].append([ch_[side][0], ch_[side][2], 0, min(U64, ch_[side][1] + 2000)])
                yield c
            else:
                yield case

    def evaluate(self, ctx, case):
        ev = Eval()
        self.tag_file(ev, case)
        i, m = self.ask_lift(ctx, ev, case)
        b, answers = parse_liftover_reply(i)
        ref, qry = ch.names_sizes(case["chains"], "ref"), ch.names_sizes(case["chains"], "qry")
        conflict = any(len(v) > 1 for v in ref.values()) or any(len(v) > 1 for v in qry.values())
        # what the specification says about these bytes (the generator and the shrinker may leave the
        # well-formed files, e.g. with a size beyond u64::MAX)
        s = ctx.model.ask("spec wf " + self.src(case))
        ev.requests.append("spec wf " + self.src(case))
        ev.tags.append("conflict" if conflict else "consistent")
        if conflict:
            if b.startswith("ok") or b.startswith("panic") or b == "abort":
                ev.judge = "a file declaring one contig with two sizes gave: " + b
            ev.nontrivial = ("conflict", case_key(case))
            return ev
        if not s.startswith("wf"):
            ev.tags.append("spec:" + s)
            if b.startswith("ok"):
                ev.judge = "ill-formed file accepted (specification says %s)" % s
                for iv, (tag, pairs) in zip(case["ivs"], answers):
                    for p in pairs:
                        rs, qs = list(ref.get(p[0], [None]))[0], list(qry.get(p[4], [None]))[0]
                        if rs is None or qs is None or not (0 <= p[2] <= p[3] <= rs) or not (0 <= p[6] <= p[7] <= qs):
                            ev.judge += "; and the machine built from it returns %s, outside the sizes it reports (ref %s / qry %s)" % (p, rs, qs)
                            return ev
            if case.get("kind") in ("size-below-end", "overshoot"):
                ev.nontrivial = (case["kind"], case_key(case))
            return ev
        if not b.startswith("ok"):
            ev.judge = "well-formed file refused: " + b
            return ev
        def dump(d):
            return "[" + ",".join(sorted("%s:%d" % (hx(n), list(s)[0]) for n, s in d.items())) + "]"
        want = "ok ref=%s qry=%s" % (dump(ref), dump(qry))
        if b != want:
            ev.judge = "dictionaries: expected %s, got %s" % (want, b)
            return ev
        for iv, (tag, pairs) in zip(case["ivs"], answers):
            for p in pairs:
                rs = list(ref.get(p[0], [None]))[0]
                qs = list(qry.get(p[4], [None]))[0]
                if rs is None or qs is None or not (0 <= p[2] <= p[3] <= rs) or not (0 <= p[6] <= p[7] <= qs):
                    ev.judge = "pair %s out of the bounds ref %s / qry %s" % (p, rs, qs)
                    return ev
        if any(n in qry and qry[n] != ref[n] for n in ref):
            ev.nontrivial = ("shared", case_key(case))
        return ev


# ==========================================================================================
# C04 / C07(step) — step-through
# ==========================================================================================

def gen_header_side(rng, name):
    strand = rng.choice("+-")
    mode = rng.random()
    if mode < 0.7:
        size = rng.randint(1, 60)
    elif mode < 0.85:
        size = rng.choice([2 ** 32, 2 ** 63, U64 - 1, U64])
    else:
        size = rng.choice([0, 1, 2])
    start = rng.randint(0, min(size, 10)) if rng.random() < 0.7 else rng.randint(0, size)
    end = rng.randint(start, size) if rng.random() < 0.6 else min(size, start + rng.randint(0, 30))
    return [name, size, strand, start, end]


def gen_step_case(rng):
    ref = gen_header_side(rng, rng.choice(["a", "chr1"]))
    qry = gen_header_side(rng, rng.choice(["b", "chr1"]))
    mode = rng.random()
    n = rng.choice([1, 1, 2, 3, 4, 6, 8])
    recs = []
    if mode < 0.55:
        # records that add up exactly on both sides (when possible)
        rext, qext = ref[4] - ref[3], qry[4] - qry[3]
        tot = min(rext, qext)
        cuts = sorted(rng.randint(0, tot) for _ in range(n - 1))
        sizes = [b - a for a, b in zip([0] + cuts, cuts + [tot])]
        rgap, qgap = rext - tot, qext - tot
        for k, s in enumerate(sizes):
            if k + 1 < n:
                dt = rng.randint(0, rgap) if k + 2 < n else rgap
                dq = rng.randint(0, qgap) if k + 2 < n else qgap
                rgap -= dt
                qgap -= dq
                recs.append([s, dt, dq])
            else:
                recs.append([s, None, None])
        if n == 1 and (rext != tot or qext != tot):
            pass  # cannot add up with one record: stays a mismatch case
        if rng.random() < 0.35 and recs:
            k = rng.randrange(len(recs))
            f = rng.choice([0, 1, 2])
            if recs[k][f] is not None:
                recs[k][f] = max(0, recs[k][f] + rng.choice([-2, -1, 1, 2, 7]))
    else:
        for k in range(n):
            big = rng.random() < 0.12
            s = rng.choice([U64, U64 - 1, 2 ** 63]) if big else rng.randint(0, 9)
            if (k + 1 < n and rng.random() < 0.93) or (k + 1 == n and rng.random() < 0.1):
                recs.append([s, rng.choice([0, 1, 2, 5, U64]) if rng.random() < 0.9 else rng.randint(0, 50),
                             rng.choice([0, 1, 2, 5]) if rng.random() < 0.9 else U64])
            else:
                recs.append([s, None, None])      # terminating (also in the middle: the public Builder allows it)
    return {"kind": "step", "ref": ref, "qry": qry, "recs": recs}


def step_request(case, cap):
    hdr = "chain 7 %s %s 3" % (" ".join(str(x) for x in case["ref"]), " ".join(str(x) for x in case["qry"]))
    recs = []
    for s, dt, dq in case["recs"]:
        recs.append(hx(str(s)) if dt is None else hx("%d\t%d\t%d" % (s, dt, dq)))
    return "step %s %s %d" % (hx(hdr), ",".join(recs), cap), hx(hdr), ",".join(recs)


class StepBase(Prop):
    def shrink(self, case):
        for k in range(len(case["recs"])):
            if len(case["recs"]) > 1:
                c = copy.deepcopy(case)
                del c["recs"][k]
                yield c
        for k in range(len(case["recs"])):
            for f in (0, 1, 2):
                v = case["recs"][k][f]
                if v:
                    for nv in (0, v // 2, v - 1):
                        if nv != v:
                            c = copy.deepcopy(case)
                            c["recs"][k][f] = nv
                            yield c
        for side in ("ref", "qry"):
            for idx in (1, 3, 4):
                v = case[side][idx]
                for nv in (v // 2, v - 1):
                    if 0 <= nv < v:
                        c = copy.deepcopy(case)
                        c[side][idx] = nv
                        if c[side][3] <= c[side][4] <= c[side][1]:
                            yield c

    def neighbours(self, case, rng):
        for k in range(len(case["recs"])):
            for f in (0, 1, 2):
                if case["recs"][k][f] is not None:
                    for d in (-1, 1):
                        c = copy.deepcopy(case)
                        c["recs"][k][f] += d
                        if 0 <= c["recs"][k][f] <= U64:
                            yield c
        for side in ("ref", "qry"):
            for idx in (1, 3, 4):
                for d in (-1, 1):
                    c = copy.deepcopy(case)
                    c[side][idx] += d
                    if 0 <= c[side][3] <= c[side][4] <= c[side][1] <= U64:
                        yield c
            c = copy.deepcopy(case)
            c[side][2] = "-" if c[side][2] == "+" else "+"
            yield c


@register
class C04(StepBase):
    id = "C04"
    title = "Step-through tiles a chain exactly as its records and header dictate"
    rule = ("headers over all four strand combinations with any start<=end<=size (sizes 0..60, 2^32, 2^63, u64::MAX) x record lists "
            "of length 1-8: (a) lists that add up exactly, with a single field perturbed by ±1/±2/+7 in 35% of them, (b) free lists "
            "with sizes/gaps including 0 and u64::MAX; judge = the specification's prefix-sum tiling (Lean `expected`, `sumsMatch`): "
            "items before the first error are the expected pairs with their records, no error iff the records add up; "
            "non-trivial = >= 2 records with dt != dq somewhere, or an arithmetic failure; distinct by case")

    def cases(self, rng, tier):
        for _ in range(4000 if tier == "quick" else 150000):
            yield gen_step_case(rng)

    def evaluate(self, ctx, case):
        ev = Eval()
        n = len(case["recs"])
        req, hdr, recs = step_request(case, 4 * n + 8)
        i, m = both(ctx, ev, req)
        if i != m:
            ev.corr = "impl %r vs model %r" % (i[:300], m[:300])
        s = ctx.model.ask("spec step %s %s" % (hdr, recs))
        ev.requests.append("spec step %s %s" % (hdr, recs))
        if s == "badinput" or i == "badinput":
            ev.tags.append("badinput")
            return ev
        if i == "new_err seq":
            ev.judge = "a header with start<=end<=size could not be converted"
            return ev
        exp = s.split(" ; ")
        items = i.split(" ; ")
        if not items[-1].startswith("plain=ok"):
            ev.judge = "stepthrough() and stepthrough_with_data() disagree on this section: " + items[-1]
            return ev
        items = items[:-1]
        match = exp[-1] == "match"
        exp = exp[:-1]
        ev.tags.append("match" if match else "nomatch")
        if items[-1] != "done":
            ev.judge = "the step-through did not end: " + i[:200]
            return ev
        items = items[:-1]
        errs = [k for k, x in enumerate(items) if x.startswith("E")]
        pre = items[:errs[0]] if errs else items
        if pre != exp[:len(pre)]:
            ev.judge = "pairs before the first error differ from the tiling: got %s, expected prefix of %s" % (pre, exp)
        elif match and (errs or len(items) != len(exp)):
            ev.judge = "records add up but the step-through reported %s" % (items[len(pre):],)
        elif not match and not errs:
            ev.judge = "records do not add up but no error was reported"
        elif errs and errs[0] != len(items) - 1:
            ev.judge = "items after the first error: %s" % (items[errs[0]:],)
        for e in errs:
            ev.tags.append(items[e])
        if (n >= 2 and any(r[1] != r[2] for r in case["recs"] if r[1] is not None)) or errs:
            ev.nontrivial = case_key2(case)
        return ev


def case_key2(case):
    import hashlib, json
    return hashlib.md5(json.dumps(case, sort_keys=True).encode()).hexdigest()[:12]


# ==========================================================================================
# line-class streams: C05, C07
# ==========================================================================================

HEADERS = ["chain 0 a 9 + 0 9 b 9 + 0 9 1", "chain 5 chr1 20 - 2 11 q1 30 + 4 13 2", "chain 1 a 9 + 1 5 b 9 - 0 4 7",
           # valid headers whose names contain white space other than the delimiter, or are empty: fields are
           # separated by single spaces and by nothing else
           "chain 0 a\tb 9 + 0 9 b 9 + 0 9 1", "chain 0 a\u00a0x 9 + 0 9 b\u3000 9 + 0 9 1", "chain 0  9 + 0 9 b 9 + 0 9 1"]
NONTERM = ["3\t0\t1", "2\t1\t0", "4\t0\t0", "0\t2\t2"]
TERM = ["1", "4", "9", "0"]
JUNK = ["chain oops", "chainX 0 a 9 + 0 9 b 9 + 0 9 1", "3\t1", "3\t1\t2\t7", "3\t0\t1\t", "4\t", "x", "chain 0 a 9 + 5 2 b 9 + 0 9 1", " 5", "5\t\t", "chain 0 a 9 ? 0 9 b 9 + 0 9 1", "18446744073709551616",
        # not UTF-8 (surrogate escapes stand for the raw bytes ff / c3 28 / 1f 8b): the reader refuses the line but must consume it
        # lines other tools treat specially (comments, a byte order mark): for this library they are ordinary unparsable lines
        # header-like lines with a surplus (empty) field: two consecutive spaces, a trailing space, a leading space after the prefix
        "chain 0 a 9 + 0 9 b 9 + 0 9 1 ", "chain 0 a  9 + 0 9 b 9 + 0 9 1", "chain  0 a 9 + 0 9 b 9 + 0 9 1", "chain 0 a 9 + 0 9 b 9 +  0 9 1",
        "chain\t0 a 9 + 0 9 b 9 + 0 9 1", "3 1 2", "3\t1 2",
        "#", "# comment", "##matrix=16 91 -114 -31", "\ufeffchain 0 a 9 + 0 9 b 9 + 0 9 1", "\ufeff",
        "\udcff", "3\t1\t\udcc3(", "\x1f\udc8b\x08\x01", "chain 0 a\udcfe 9 + 0 9 b 9 + 0 9 1"]
CLASSES = "BHNTU"


def render_class(rng, c):
    if c == "B":
        return ""
    if c == "H":
        return rng.choice(HEADERS)
    if c == "N":
        return rng.choice(NONTERM)
    if c == "T":
        return rng.choice(TERM)
    return rng.choice(JUNK)


def class_sequences(maxlen):
    import itertools
    for n in range(0, maxlen + 1):
        for seq in itertools.product(CLASSES, repeat=n):
            yield "".join(seq)


def gen_line_case(rng, tier):
    """longer random streams: good sections with padding, an error somewhere, more sections"""
    lines = []
    for _ in range(rng.randint(1, 4)):
        lines += [""] * rng.choice([0, 0, 1, 2])
        if rng.random() < 0.85:
            lines.append(rng.choice(HEADERS))
            lines += [rng.choice(NONTERM) for _ in range(rng.randint(0, 3))]
            if rng.random() < 0.9:
                lines.append(rng.choice(TERM))
        if rng.random() < 0.35:
            lines.append(render_class(rng, rng.choice(CLASSES)))
    return lines


class LinesBase(Prop):
    def line_cases(self, rng, tier):
        maxlen = 5 if tier == "quick" else 7
        for seq in class_sequences(maxlen):
            r = random.Random(seq + str(rng.random()))
            yield {"kind": "lines", "lines": [render_class(r, c) for c in seq], "final_newline": r.random() < 0.5,
                   "eol": r.choice(["\n", "\n", "\r\n"]), "chunks": (r.randint(0, 10 ** 6) if r.random() < 0.3 else None)}
        for _ in range(600 if tier == "quick" else 20000):
            yield {"kind": "lines", "lines": gen_line_case(rng, tier), "final_newline": rng.random() < 0.5,
                   "eol": rng.choice(["\n", "\n", "\r\n"]), "chunks": (rng.randint(0, 10 ** 6) if rng.random() < 0.3 else None)}
        for _ in range(2 if tier == "quick" else 30):
            # long files: hundreds of sections, thousands of lines, an error (or not) near the end
            lines = []
            for k in range(rng.randint(300, 600)):
                lines.append(rng.choice(HEADERS))
                lines += [rng.choice(NONTERM) for _ in range(rng.randint(0, 4))]
                lines.append(rng.choice(TERM))
                lines += [""] * rng.choice([0, 1, 1, 2])
            if rng.random() < 0.6:
                lines.insert(rng.randint(len(lines) - 40, len(lines)), render_class(rng, rng.choice(CLASSES)))
            yield {"kind": "lines", "lines": lines, "final_newline": rng.random() < 0.5, "eol": rng.choice(["\n", "\r\n"])}
        for nb in ((3000, 20000) if tier == "quick" else (500, 3000, 20000, 100000)):
            # a long run of blank lines before, between and after sections ("any number of blank lines")
            secs = [rng.choice(HEADERS), rng.choice(TERM)]
            for where in ("before", "between", "after"):
                lines = {"before": [""] * nb + secs + [""] + secs,
                         "between": secs + [""] * nb + secs,
                         "after": secs + [""] + secs + [""] * nb}[where]
                yield {"kind": "lines", "lines": lines, "final_newline": True, "eol": rng.choice(["\n", "\r\n"])}
        for _ in range(6 if tier == "quick" else 60):
            # very long lines (several times 64 KiB): one physical line must stay one line
            lines = gen_line_case(rng, tier)
            n = rng.choice([65537, 140000, 200001, 300000])
            # (digit strings are kept to a few thousand digits: the model computes the numeral's value)
            long_line = rng.choice(["7" * 4000 + "x" * n, "x" * n, "chain 0 " + "N" * n + " 9 + 0 9 b 9 + 0 9 1",
                                    rng.choice(HEADERS)[:-1] + "1" * 3000 + " " * 0 + "y" * n, "3\t1\t" + "z" * n])
            lines.insert(rng.randint(0, len(lines)), long_line)
            yield {"kind": "lines", "lines": lines, "final_newline": rng.random() < 0.5, "eol": "\n"}

    def data(self, case):
        return ch.render_lines(case["lines"], case.get("eol", "\n"), case.get("final_newline", True))

    def src(self, case):
        """the byte source: one chunk, or (when the case carries a chunk seed) a random chunk schedule —
        one byte at a time, or a few random cuts"""
        data = self.data(case)
        seed = case.get("chunks")
        if seed is None or len(data) > 3000:
            return ch.src_one(data)
        r = random.Random(seed)
        return ch.src_events(r.choice(ch.chunkings(r, data, k=3)))

    def shrink(self, case):
        for k in range(len(case["lines"])):
            c = copy.deepcopy(case)
            del c["lines"][k]
            yield c
        if case.get("eol") != "\n":
            c = copy.deepcopy(case)
            c["eol"] = "\n"
            yield c
        if case.get("chunks") is not None:
            c = copy.deepcopy(case)
            c["chunks"] = None
            yield c

    def neighbours(self, case, rng):
        for k in range(len(case["lines"]) + 1):
            for cl in CLASSES:
                c = copy.deepcopy(case)
                c["lines"].insert(k, render_class(rng, cl))
                yield c
        for k in range(len(case["lines"])):
            for cl in CLASSES:
                c = copy.deepcopy(case)
                c["lines"][k] = render_class(rng, cl)
                yield c


def norm_sec_items(items):
    """compare errors after the first one without their line numbers"""
    out, seen = [], False
    for x in items:
        if seen and x.startswith("E blank"):
            x = "E blank"
        if x.startswith("E"):
            seen = True
        out.append(x)
    return out


@register
class C05(LinesBase):
    id = "C05"
    title = "Section iterator conforms to the chain-file line grammar up to the first error"
    rule = ("every sequence over {blank, header, non-terminating data, terminating data, unparsable} of length <= 5 (quick) / <= 7 "
            "(thorough), each rendered with varying concrete records, LF/CRLF, with/without final newline, plus random longer multi-"
            "section streams; 30% of the streams are delivered through a random chunk schedule (one byte at a time or a few cuts); the iterator is driven to exhaustion (cap 4*lines+8); judge = the specification-level parser "
            "(Lean `specSecs`, proved equal to the grammar `Parses`): items up to and including the first error must be equal; "
            "sections yielded after an error must be runs of consecutive input lines; non-trivial = >= 2 sections or an error "
            "not in first position; distinct by stream")

    def cases(self, rng, tier):
        return self.line_cases(rng, tier)

    def evaluate(self, ctx, case):
        ev = Eval()
        data = self.data(case)
        n = len(case["lines"])
        req = "sections %s %d" % (self.src(case), 4 * n + 8)
        i, m = both(ctx, ev, req)
        ii, mm = i.split(" ; "), m.split(" ; ")
        if norm_sec_items(ii) != norm_sec_items(mm):
            ev.corr = "impl %r vs model %r" % (i[:300], m[:300])
        s = ctx.model.ask("spec secs " + ch.src_one(data))
        ev.requests.append("spec secs " + ch.src_one(data))
        if case.get("chunks") is not None:
            ev.tags.append("chunked")
        ss = s.split(" ; ")
        if i.startswith("panic") or i == "abort":
            ev.judge = "panic"
            return ev
        if ii[-1].startswith("adaptor-differ"):
            ev.judge = "count()/last()/size_hint() of the section iterator disagree with repeated next(): " + ii[-1]
            return ev
        # up to and including the first error
        def upto(xs):
            out = []
            for x in xs:
                out.append(x)
                if x.startswith("E"):
                    break
            return out
        if upto(ii) != ss:
            ev.judge = "up to the first error: implementation %s, grammar %s" % (upto(ii), ss)
            return ev
        # sections after an error are runs of consecutive lines
        if any(x.startswith("E") for x in ii):
            canon = []
            for t in case["lines"]:
                r = ctx.model.ask("line " + hx(t)) if not any(0xdc80 <= ord(c) <= 0xdcff for c in t) else "not-utf8"
                canon.append(r.split(" print=")[0][3:] if r.startswith("ok") else "?")
            k = [j for j, x in enumerate(ii) if x.startswith("E")][0]
            for x in ii[k + 1:]:
                if x.startswith("S "):
                    parts = x[2:].split(" | ")
                    want = ["header " + parts[0]] + ["data " + p for p in parts[1:]]
                    if not any(canon[a:a + len(want)] == want for a in range(len(canon))):
                        ev.judge = "section yielded after an error is not a run of consecutive input lines: " + x
                        return ev
                    if not (parts[-1].endswith(" T") and all(p.endswith(" N") for p in parts[1:-1])):
                        ev.judge = "section with a misplaced terminating record: " + x
                        return ev
        nsec = sum(1 for x in ss if x.startswith("S"))
        errpos = [j for j, x in enumerate(ss) if x.startswith("E")]
        for x in ss:
            ev.tags.append(" ".join(x.split(" ")[:2]) if x.startswith("E") else x.split(" ")[0])
        if nsec >= 2 or (errpos and errpos[0] > 0):
            ev.nontrivial = case_key2(case)
        return ev


@register
class C07(LinesBase):
    id = "C07"
    title = "Iterators are finite and a step-through yields nothing after an error"
    rule = ("all C05 streams (in particular streams ending inside a section) drained with cap 4*lines+8: at most lines+1 items, then "
            "None; `lines()` likewise; all C04 sections (in particular records that do not add up or run out of bounds) drained "
            "with cap 4*records+8: at most records+1 items, then None, no pair after an error; non-trivial = the drain contains an "
            "error; distinct by case")

    def cases(self, rng, tier):
        a = self.line_cases(rng, tier)
        for _ in range(10 ** 9):
            try:
                yield next(a)
            except StopIteration:
                break
            yield gen_step_case(rng)

    def shrink(self, case):
        return (LinesBase.shrink(self, case) if case["kind"] == "lines" else StepBase.shrink(self, case))

    def neighbours(self, case, rng):
        return (LinesBase.neighbours(self, case, rng) if case["kind"] == "lines" else StepBase.neighbours(self, case, rng))

    def evaluate(self, ctx, case):
        ev = Eval()
        if case["kind"] == "lines":
            data = self.data(case)
            n = len(case["lines"])
            cap = 4 * n + 8
            i, m = both(ctx, ev, "sections %s %d" % (self.src(case), cap))
            ii, mm = i.split(" ; "), m.split(" ; ")
            obs = lambda xs: (xs[-1], len(xs) - 1 <= n + 1)
            if obs(ii) != obs(mm):
                ev.corr = "impl %r vs model %r" % (i[:300], m[:300])
            if i == "hang":
                ev.judge = "a next() call of the section iterator never returned (%d lines; time limit reached)" % n
            elif ii[-1].startswith("adaptor-differ"):
                ev.judge = "count()/last()/size_hint() of the section iterator disagree with repeated next(): " + ii[-1]
            elif ii[-1] != "done":
                ev.judge = "section iterator did not end within %d calls (%d lines): ...%s" % (cap, n, " ; ".join(ii[-3:]))
            elif len(ii) - 1 > n + 1:
                ev.judge = "section iterator yielded %d items for %d lines" % (len(ii) - 1, n)
            i2, m2 = both(ctx, ev, "lines %s" % self.src(case))
            l2 = i2.split(" ; ")
            if l2[-1] != "eof" or len(l2) - 1 > n:
                ev.judge = "lines() yielded %d items for %d lines / did not end" % (len(l2) - 1, n)
            if i2 != m2:
                ev.corr = "lines: impl %r vs model %r" % (i2[:300], m2[:300])
            if any(x.startswith("E") for x in ii):
                ev.nontrivial = case_key2(case)
                ev.tags.append("sections:error")
            else:
                ev.tags.append("sections:clean")
        else:
            n = len(case["recs"])
            req, _, _ = step_request(case, 4 * n + 8)
            i, m = both(ctx, ev, req)
            if i in ("badinput", "new_err seq"):
                ev.tags.append("step:" + i)
                if i != m:
                    ev.corr = "impl %r vs model %r" % (i, m)
                return ev
            plain = [x for x in i.split(" ; ") if x.startswith("plain=")]
            if plain and plain[0] != "plain=ok":
                _, cnt, how = plain[0].split(":")
                if how.endswith("pairs-after-error"):
                    ev.judge = "section.stepthrough() (the API without records) yields pairs after it has reported an error (%s items for %d records)" % (cnt, n)
                elif how.startswith("adaptor"):
                    ev.judge = "count()/last()/nth()/size_hint of the step-through disagree with repeated next(): " + how
                elif how.startswith("endless") or int(cnt) > n + 1:
                    ev.judge = "section.stepthrough() (the API without records) yielded %s items for %d records and %s" % (cnt, n, "did not end" if how == "endless" else "ended")
                else:
                    ev.corr = "stepthrough() and stepthrough_with_data() disagree: " + plain[0]
            ii, mm = [x for x in i.split(" ; ") if not x.startswith("plain=")], [x for x in m.split(" ; ") if not x.startswith("plain=")]
            def obs(xs):
                errs = [k for k, x in enumerate(xs) if x.startswith("E")]
                return (xs[-1], len(xs) - 1 <= n + 1, (not errs) or errs[0] == len(xs) - 2)
            if obs(ii) != obs(mm):
                ev.corr = "impl %r vs model %r" % (i[:300], m[:300])
            errs = [k for k, x in enumerate(ii) if x.startswith("E")]
            if ii[-1] != "done":
                ev.judge = "step-through did not end within %d calls (%d records): ...%s" % (4 * n + 8, n, " ; ".join(ii[-3:]))
            elif len(ii) - 1 > n + 1:
                ev.judge = "step-through yielded %d items for %d records" % (len(ii) - 1, n)
            elif errs and errs[0] != len(ii) - 2:
                ev.judge = "step-through yielded items after an error: %s" % (ii[errs[0]:],)
            if errs:
                ev.nontrivial = case_key2(case)
                ev.tags.append("step:error")
            else:
                ev.tags.append("step:clean")
        return ev


# ==========================================================================================
# C03 — all-or-nothing validation
# ==========================================================================================

def canonical_file(rng, zero_prob=0.0):
    chains = ch.gen_file(rng, max_chains=4, zero_prob=zero_prob)
    for c in chains:
        if not zero_prob:
            c.blocks = [(max(1, s), dt, dq) for s, dt, dq in c.blocks]
        c.ref.end = c.ref.start + c.ref_extent()
        c.qry.end = c.qry.start + c.qry_extent()
    ch.fix_sizes(rng, chains)
    if rng.random() < 0.35:
        # chain ids carry no meaning for this library: repeated ids (all equal, or the first one's again) must not
        # exempt a chain from validation
        k = rng.choice([0, 1, chains[0].cid])
        for c in (chains if rng.random() < 0.5 else chains[1:]):
            c.cid = k
    if rng.random() < 0.1:
        for c in chains:
            c.score = chains[0].score
    return [ch.chain_to_dict(c) for c in chains]


def file_lines(chains_d):
    """line list of the canonical rendering, with (chain index, role) per line"""
    lines, roles = [], []
    for ci, d in enumerate(chains_d):
        c = ch.chain_from_dict(d)
        lines.append(c.header())
        roles.append((ci, "H", None))
        for bi, l in enumerate(c.data_lines()):
            lines.append(l)
            roles.append((ci, "D", bi))
        lines.append("")
        roles.append((ci, "B", None))
    return lines, roles


def mutations(rng, chains_d):
    """the corruption catalogue of C03, each applied at first / middle / last applicable position.
    yields (label, list of lines)"""
    n = len(chains_d)
    picks = sorted(set([0, n // 2, n - 1]))
    for ci in picks:
        d = chains_d[ci]
        nb = len(d["blocks"])
        for bi in sorted(set([0, nb // 2, nb - 1])):
            for f, name in ((0, "size"), (1, "dt"), (2, "dq")):
                if f and bi == nb - 1:
                    continue
                for k in (-1, 1, 3):
                    if d["blocks"][bi][f] + k < 0:
                        continue
                    cs = copy.deepcopy(chains_d)
                    cs[ci]["blocks"][bi][f] += k
                    yield ("%s%+d chain%d block%d" % (name, k, ci, bi), file_lines(cs)[0])
        for side in ("ref", "qry", "both"):
            for idx, what in ((3, "start"), (4, "end")):
                for k in (-1, 1, 4):
                    cs = copy.deepcopy(chains_d)
                    for s in (("ref", "qry") if side == "both" else (side,)):
                        cs[ci][s][idx] += k
                    if any(cs[ci][s][idx] < 0 for s in ("ref", "qry")):
                        continue
                    yield ("header %s %s%+d chain%d" % (side, what, k, ci), file_lines(cs)[0])
        for side in ("ref", "qry"):
            cs = copy.deepcopy(chains_d)
            cs[ci][side][3], cs[ci][side][4] = cs[ci][side][4] + 1, cs[ci][side][3]
            yield ("start>end %s chain%d" % (side, ci), file_lines(cs)[0])
            cs = copy.deepcopy(chains_d)
            cs[ci][side][1] = cs[ci][side][4] - 1
            if cs[ci][side][1] >= 0:
                yield ("size<end %s chain%d" % (side, ci), file_lines(cs)[0])
    lines, roles = file_lines(chains_d)
    for ci in picks:
        idxs = [k for k, r in enumerate(roles) if r[0] == ci]
        hdr = idxs[0]
        data = [k for k in idxs if roles[k][1] == "D"]
        term = data[-1]
        l2 = list(lines); del l2[term]
        yield ("terminating line removed chain%d" % ci, l2)
        for pos in sorted(set([data[0], term])):
            for what, text in (("blank", ""), ("header", lines[hdr]), ("junk", "chain oops"), ("junk2", "7\t1"),
                               # lines other tools skip or tolerate; inside a section of a chain file they are junk
                               ("comment", "#"), ("comment2", "##matrix=16 91 -114"), ("comment3", "#3\t1\t2"),
                               ("blankish", " "), ("blankish2", "\t"), ("bom", "\ufeff"), ("semicolon", "; note")):
                l2 = list(lines); l2.insert(pos, text)
                yield ("%s inserted inside section chain%d" % (what, ci), l2)
        l2 = list(lines); l2.insert(hdr, "5")
        yield ("data before header chain%d" % ci, l2)
        l2 = list(lines); l2[hdr] = lines[hdr] + " 9"
        yield ("14 header fields chain%d" % ci, l2)
        l2 = list(lines); l2[hdr] = " ".join(lines[hdr].split(" ")[:-1])
        yield ("12 header fields chain%d" % ci, l2)
        l2 = list(lines); l2[term] = lines[term] + "\t1"
        yield ("2 data fields chain%d" % ci, l2)
        l2 = list(lines); l2[term] = lines[term] + "\t1\t1\t1"
        yield ("4 data fields chain%d" % ci, l2)
        if len(data) > 1:
            for extra in ("\t7", "\t"):
                l2 = list(lines); l2[data[0]] = lines[data[0]] + extra
                yield ("extra field on a non-terminating line chain%d" % ci, l2)
        l2 = list(lines); l2[term] = lines[term] + "\t"
        yield ("trailing TAB on the terminating line chain%d" % ci, l2)
        l2 = list(lines); l2[term] = "x" + lines[term]
        yield ("non-numeric size chain%d" % ci, l2)
        l2 = list(lines); l2[term] = "18446744073709551616"
        yield ("out-of-range size chain%d" % ci, l2)
        # out-of-range numbers that are CONGRUENT to the right value modulo 2^64 (a parser that wraps would read the
        # right number): every numeric field of the header and of every data line, + 2^64 (20 digits)
        for di in data:
            fs = lines[di].split("\t")
            for k in range(len(fs)):
                if fs[k].isdigit():
                    f2 = list(fs); f2[k] = str(int(fs[k]) + 2 ** 64)
                    l2 = list(lines); l2[di] = "\t".join(f2)
                    yield ("data field %d + 2^64 chain%d" % (k, ci), l2)
        hp = lines[hdr].split(" ")
        for fi in (1, 3, 5, 6, 8, 10, 11, 12):
            if len(hp) == 13 and hp[fi].isdigit():
                p2 = list(hp); p2[fi] = str(int(hp[fi]) + 2 ** 64)
                l2 = list(lines); l2[hdr] = " ".join(p2)
                yield ("header field %d + 2^64 chain%d" % (fi, ci), l2)
        parts = lines[hdr].split(" ")
        for fi in (1, 3, 5, 6, 8, 10, 11, 12):
            l2 = list(lines); p2 = list(parts); p2[fi] = "18446744073709551616"; l2[hdr] = " ".join(p2)
            if fi in (3, 8):
                yield ("out-of-range header field %d chain%d" % (fi, ci), l2)
            l2 = list(lines); p2 = list(parts); p2[fi] = "-" + p2[fi]; l2[hdr] = " ".join(p2)
            if fi in (1, 5, 12):
                yield ("negative header field %d chain%d" % (fi, ci), l2)
        l2 = list(lines); p2 = list(parts); p2[4] = "*"; l2[hdr] = " ".join(p2)
        yield ("bad strand chain%d" % ci, l2)


def build_class(reply):
    t = reply.split(" ")
    if t[0] == "ok":
        return "ok"
    if t[0] == "err":
        return " ".join(t[:4]) if t[1] == "sections" else " ".join(t[:4]) if t[1] == "step" else " ".join(t[:2])
    return t[0]


@register
class C03(Prop):
    id = "C03"
    title = "All-or-nothing validation: a machine is never built from an ill-formed chain"
    rule = ("canonical well-formed files (must be accepted) and, for each, the whole corruption catalogue at first/middle/last "
            "chain and block: size/dt/dq ±k, header start/end ±k on the reference only / query only / both, start>end, size<end, "
            "terminating line removed, blank/header/junk inserted inside a section, data before the first header, wrong field "
            "counts, non-numeric and out-of-range numbers; judge = the specification's `WFFile` decided on the same bytes "
            "(accepted iff well-formed, never a panic); non-trivial = a corruption that changes exactly one side's sum or is "
            "structural; distinct by (file, corruption)")

    def cases(self, rng, tier):
        for k in range(40 if tier == "quick" else 1500):
            # every third file is well-formed but not canonical: it has zero-size blocks that carry gaps
            cs = canonical_file(rng, zero_prob=0.25 if k % 3 == 2 else 0.0)
            yield {"kind": "canonical", "chains": cs, "label": "canonical", "lines": file_lines(cs)[0]}
            for label, lines in mutations(rng, cs):
                yield {"kind": "mutated", "chains": cs, "label": label, "lines": lines}

    def evaluate(self, ctx, case):
        ev = Eval()
        data = ch.render_lines(case["lines"])
        src = ch.src_one(data)
        i, m = both(ctx, ev, "build " + src)
        if build_class(i) != build_class(m):
            ev.corr = "impl %r vs model %r" % (i[:200], m[:200])
        s = ctx.model.ask("spec wf " + src)
        ev.requests.append("spec wf " + src)
        wf = s.startswith("wf")
        ev.tags.append(case["label"].split(" chain")[0].split("+")[0].split("-")[0].strip() + (":wf" if wf else ":ill"))
        if i.startswith("panic") or i == "abort":
            ev.judge = "builder panicked on: " + case["label"]
        elif case["kind"] == "canonical" and not i.startswith("ok"):
            ev.judge = "well-formed file refused (canonical rendering of a generated file): " + i
        elif wf and not i.startswith("ok"):
            ev.judge = "well-formed file refused (%s): %s" % (case["label"], i)
        elif not wf and i.startswith("ok"):
            ev.judge = "ill-formed file accepted (%s; specification says %s)" % (case["label"], s)
        lab = case["label"]
        if any(x in lab for x in ("dt", "dq", "header ref", "header qry", "removed", "inserted", "before")):
            ev.nontrivial = (case_key2(case["chains"]), lab)
        return ev

    def shrink(self, case):
        lines = case["lines"]
        label = case["label"] if case["label"].startswith("shrunk") else "shrunk: " + case["label"]
        starts = [k for k, t in enumerate(lines) if t.startswith("chain ")] + [len(lines)]
        cands = []
        for a, b in zip(starts, starts[1:]):
            cands.append(lines[:a] + lines[b:])          # drop a whole chain
        for k in range(len(lines)):
            cands.append(lines[:k] + lines[k + 1:])      # drop one line
        for l2 in cands:
            c = copy.deepcopy(case)
            c["lines"] = l2
            # a shrunk file is no longer "the canonical rendering": only the WFFile judge applies
            c["kind"] = "mutated"
            c["label"] = label
            yield c

    def neighbours(self, case, rng):
        for label, lines in mutations(rng, case["chains"]):
            yield {"kind": "mutated", "chains": case["chains"], "label": label, "lines": lines}


# ==========================================================================================
# C12 — encodings and chunking; C08 — truncation and faults; C17 — one cursor
# ==========================================================================================

def blank_norm(items):
    return [("E blank" if x.startswith("E blank") else x) for x in items]


@register
class C12(Prop):
    id = "C12"
    title = "Parsing is independent of line endings, blank padding and read chunking"
    rule = ("valid and invalid files (C05 line streams and generated chain files) x {LF, CRLF} x {final newline, none} x blank "
            "lines inserted between sections x chunk schedules (1 byte at a time, every two-piece split of short files, random "
            "compositions, splits between CR and LF); judge: sections / build / liftover equal to the single-chunk LF baseline "
            "modulo the numbers in Blank errors; raw reads report the bytes consumed and strip exactly one LF then one CR; "
            "non-trivial = CRLF or a chunk boundary inside a line; distinct by (stream, encoding, schedule)")

    def cases(self, rng, tier):
        n = 120 if tier == "quick" else 4000
        for k in range(n):
            if k % 2 == 0:
                lines = gen_line_case(rng, tier)
                ivs = []
            else:
                chains = ch.gen_file(rng, max_chains=3)
                lines = []
                for c in chains:
                    lines += c.lines() + [""]
                ivs = [list(ch.gen_interval(rng, chains)) for _ in range(6)]
            if rng.random() < 0.04 and lines:
                n = rng.choice([65536, 65537, 70000])
                lines[rng.randrange(len(lines))] = rng.choice(["chain 0 " + "N" * n + " 9 + 0 9 b 9 + 0 9 1", "x" * n])
            if rng.random() < 0.25 and lines:
                # trailing white space before the terminator, and lines of white space only: a line is returned WITHOUT
                # its LF / CRLF and with everything else
                # (not a trailing CR: "x\r" + LF IS the CRLF-terminated line "x")
                ws = rng.choice([" ", "\t", "  ", "\r ", "\u00a0", "\u3000", "\x0b", "\x0c", " \t "])
                if rng.random() < 0.7:
                    k_ = rng.randrange(len(lines))
                    lines[k_] = lines[k_] + ws
                else:
                    lines.insert(rng.randint(0, len(lines)), ws)
            if rng.random() < 0.1 and lines:
                # a decorated first line (byte order mark, comment marker, stray blank): the very first bytes of
                # the stream, which every chunk schedule cuts differently
                lines[0] = rng.choice(["\ufeff", "#", "\ufeff#", " ", ">", "\x1f\udc8b"]) + lines[0]
            yield {"kind": "enc", "lines": lines, "ivs": ivs, "seed": rng.randint(0, 2 ** 31)}

    def variants(self, case):
        """(label, event list) re-encodings and chunkings of the same line sequence"""
        rng = random.Random(case["seed"])
        lines = case["lines"]
        base = ch.render_lines(lines, "\n", True)
        out = [("lf", [("c", base)])]
        big = len(base) > 4000
        for eol in ("\n", "\r\n"):
            for fin in (True, False):
                if not fin and lines and lines[-1] == "":
                    continue
                data = ch.render_lines(lines, eol, fin)
                out.append(("%s fin=%s" % ("crlf" if eol != "\n" else "lf", fin), [("c", data)]))
                for ev in (ch.chunkings(rng, data, k=2)[1:] if big else ch.chunkings(rng, data, k=2)):
                    out.append(("%s fin=%s chunks=%d" % ("crlf" if eol != "\n" else "lf", fin, len(ev)), ev))
                if len(data) <= 80:
                    for cut in range(1, len(data)):
                        out.append(("two-piece@%d" % cut, [("c", data[:cut]), ("c", data[cut:])]))
                if eol == "\r\n":
                    pos = data.find(b"\r\n")
                    if pos >= 0:
                        out.append(("split CR|LF", [("c", data[:pos + 1]), ("c", data[pos + 1:])]))
        # blank padding before/between/after sections: only for streams without errors (in a stream with an
        # error a "chain" line may sit inside a section, where a blank line is a different error)
        if case.get("clean"):
            padded = []
            for t in lines:
                if t.startswith("chain ") and rng.random() < 0.7:
                    padded += [""] * rng.randint(1, 2)
                padded.append(t)
            padded += [""] * rng.randint(0, 2)
            out.append(("blank padding", [("c", ch.render_lines(padded, "\n", True))]))
            if rng.random() < 0.15:
                # ... and a really long run of blank lines at one of those places
                k = rng.choice([i for i, t in enumerate(lines) if t.startswith("chain ")] + [len(lines)])
                big = list(lines[:k]) + [""] * rng.choice([3000, 20000]) + list(lines[k:])
                out.append(("blank padding", [("c", ch.render_lines(big, "\n", True))]))
        # k blank lines in front of ANY stream (with or without errors): every item up to and including the first
        # error is unchanged, except that a line number quoted by it grows by exactly k (theorem C12_blank_front_shift)
        k = rng.randint(1, 3)
        out.append(("leading blanks %d" % k, [("c", ch.render_lines([""] * k + list(lines), "\n", True))]))
        return out

    def evaluate(self, ctx, case):
        ev = Eval()
        n = len(case["lines"]) * 2 + 8
        b0 = ctx.impl.ask("sections %s %d" % (ch.src_one(ch.render_lines(case["lines"])), 4 * n))
        case = dict(case)
        case["clean"] = not any(x.startswith("E") for x in b0.split(" ; "))
        vs = self.variants(case)
        base = None
        base_lines = None
        base_fresh = None
        ivs = ",".join(iv_tok(*iv) for iv in case["ivs"])
        for label, events in vs:
            src = ch.src_events(events)
            i, m = both(ctx, ev, "sections %s %d" % (src, 4 * n))
            # against the model: line numbers after the first error are not compared (as in C05); against the
            # baseline of the same implementation: everything is, numbers included
            if norm_sec_items(i.split(" ; ")) != norm_sec_items(m.split(" ; ")):
                ev.corr = "sections (%s): impl %r vs model %r" % (label, i[:200], m[:200])
            ii = i.split(" ; ")
            if label.startswith("leading blanks"):
                kb = int(label.split(" ")[-1])
                def upto_err(xs):
                    out_ = []
                    for x in xs:
                        out_.append(x)
                        if x.startswith("E"):
                            break
                    return out_
                want = [("E blank %d" % (int(x.split(" ")[2]) + kb)) if x.startswith("E blank ") else x for x in upto_err(base or [])]
                if base is not None and upto_err(ii) != want:
                    ev.judge = "with %d blank lines in front the items up to the first error are %s, expected %s (numbers shifted by %d)" % (kb, upto_err(ii)[-3:], want[-3:], kb)
                    break
                continue
            if ii[-1].startswith("adaptor-differ"):
                ev.judge = "under '%s' the sections reached through nth()/skip()/step_by()/count()/last() are not those of repeated next(): %s" % (label, ii[-1])
                break
            if label != "blank padding" or True:
                if base is None:
                    base = ii
                elif ii != base and not (label == "blank padding" and blank_norm(ii) == base):
                    ev.judge = "sections differ under '%s': %s vs baseline %s" % (label, ii[:6], base[:6])
                    break
            if case["ivs"]:
                i2, m2 = both(ctx, ev, "liftover %s %s" % (src, ivs))
                if lift_obs(i2) != lift_obs(m2):
                    ev.corr = "liftover (%s): impl %r vs model %r" % (label, i2[:200], m2[:200])
                o = (build_class(i2.split(" ; ")[0]).replace("E blank %s" % "", ""), lift_obs(i2)[1])
                o = (" ".join(build_class(i2.split(" ; ")[0]).split(" ")[:4]), lift_obs(i2)[1])
                if label == "lf":
                    lbase = o
                elif o[1] != lbase[1] or o[0].split(" ")[:4] != lbase[0].split(" ")[:4]:
                    if not (o[0].startswith("err sections E blank") and lbase[0].startswith("err sections E blank")):
                        ev.judge = "machine differs under '%s': %s vs baseline %s" % (label, o, lbase)
                        break
            # one FRESH sections() iterator per section (what a caller does who handles a section and comes back):
            # the same items under every encoding, chunking and — for streams without errors — blank padding
            if label != "blank padding" or case.get("clean"):
                nfresh = min(8, sum(1 for t in case["lines"] if t.startswith("chain")) + 2)
                i5, m5 = both(ctx, ev, "ops %s %s" % (src, ",".join(["secs1"] * nfresh)))
                f5, g5 = blank_norm(i5.split(" ; ")), blank_norm(m5.split(" ; "))
                if f5 != g5:
                    ev.corr = "fresh sections() iterators (%s): impl %r vs model %r" % (label, i5[:200], m5[:200])
                if base_fresh is None:
                    base_fresh = f5
                elif f5 != base_fresh:
                    ev.judge = "sections read through fresh iterators differ under '%s': %s vs baseline %s" % (label, f5[:6], base_fresh[:6])
                    break
            if label != "blank padding":
                # parsed lines (`lines()`): the same sequence under every encoding and chunking
                i4, m4 = both(ctx, ev, "lines %s" % src)
                if i4 != m4:
                    ev.corr = "lines (%s): impl %r vs model %r" % (label, i4[:200], m4[:200])
                l4 = i4.split(" ; ")
                if base_lines is None:
                    base_lines = l4
                elif l4 != base_lines and not (base_lines[-2:] == ["empty", "eof"] and l4 == base_lines[:-2] + ["eof"] and "fin=False" in label):
                    ev.judge = "parsed lines differ under '%s': %s vs baseline %s" % (label, l4[-4:], base_lines[-4:])
                    break
                # raw reads: consumed byte counts add up, text = piece without LF then CR
                i3, m3 = both(ctx, ev, "raw %s" % src)
                if i3 != m3:
                    ev.corr = "raw (%s): impl %r vs model %r" % (label, i3[:200], m3[:200])
                data = b"".join(e[1] for e in events)
                toks = i3.split(" ")
                if toks[-1] != "eof":
                    ev.judge = "raw reads did not end"
                    break
                off = 0
                for t in toks[:-1]:
                    # ground truth: the next piece of the stream up to and including its LF
                    k = data.find(b"\n", off)
                    piece = data[off:(k + 1 if k >= 0 else len(data))]
                    try:
                        piece.decode("utf-8")
                        valid = True
                    except UnicodeDecodeError:
                        valid = False
                    if not valid:
                        # a line that is not UTF-8 is refused, and consumed (std's read_line contract)
                        if t != "utf8":
                            ev.judge = "raw read of a line that is not UTF-8 returned %s" % t[:60]
                            break
                        off += len(piece)
                        continue
                    if not t.startswith("L"):
                        ev.judge = "raw read failed on valid UTF-8: " + t
                        break
                    nn, hxs = t[1:].split(":")
                    if int(nn) != len(piece):
                        ev.judge = "raw read reports %s bytes for the piece %r" % (nn, piece[:80])
                        break
                    off += int(nn)
                    want = piece[:-1] if piece.endswith(b"\n") else piece
                    if piece.endswith(b"\n") and want.endswith(b"\r"):
                        want = want[:-1]
                    if ch.unhx(hxs) != want:
                        ev.judge = "raw read returned %r for the piece %r" % (ch.unhx(hxs), piece)
                        break
                if not ev.judge and off != len(data):
                    ev.judge = "raw reads consumed %d of %d bytes" % (off, len(data))
                if ev.judge:
                    break
                bad = lambda l: any(0xdc80 <= ord(c) <= 0xdcff for c in l)
                texts = [ch.unhx(t.split(":")[1]).decode() if t.startswith("L") else None for t in toks[:-1]]
                want_lines = [None if bad(l) else l for l in case["lines"]]
                if texts != want_lines and not (want_lines and want_lines[-1] == "" and texts == want_lines[:-1] and not label.endswith("fin=True")):
                    if not ("fin=False" in label and want_lines and texts == want_lines):
                        ev.judge = "lines under '%s' are %s, expected %s" % (label, texts[:5], want_lines[:5])
                        break
            if "crlf" in label or "chunks" in label or "two-piece" in label:
                ev.nontrivial = (case_key2(case["lines"]), label)
            ev.tags.append(label.split("@")[0].split(" chunks")[0])
        return ev

    def shrink(self, case):
        for k in range(len(case["lines"])):
            c = copy.deepcopy(case)
            del c["lines"][k]
            yield c
        if case["ivs"]:
            c = copy.deepcopy(case)
            c["ivs"] = case["ivs"][:1]
            yield c


@register
class C08(Prop):
    id = "C08"
    title = "Truncated files and failing readers never produce a partial or shifted mapping"
    level = "proof"
    rule = ("canonical well-formed files x every byte offset 0..len: the build fails or answers a batch of intervals exactly like the "
            "machine of some whole-chain prefix; x every position k of the chunk schedule at which a hard error or an Interrupted "
            "is injected: a hard error makes build / the section call in progress return an I/O error (never Ok, never a panic), "
            "interrupts change nothing; non-trivial = the cut falls inside a line / the fault falls inside a section; "
            "distinct by (file, offset or fault position)")

    def cases(self, rng, tier):
        for _ in range(12 if tier == "quick" else 800):
            cs = canonical_file(rng)
            chains = [ch.chain_from_dict(c) for c in cs]
            ivs = [list(ch.gen_interval(rng, chains)) for _ in range(10)]
            for c in chains:
                for b in ch.chain_blocks(c)[:2]:
                    ivs.append([b[0], b[1], b[2], b[3]])
            yield {"kind": "trunc", "chains": cs, "ivs": ivs[:16]}
            yield {"kind": "fault", "chains": cs, "ivs": ivs[:6], "seed": rng.randint(0, 2 ** 31)}

    def evaluate(self, ctx, case):
        ev = Eval()
        cs = case["chains"]
        data = ch.render_case(cs)
        ivs = ",".join(iv_tok(*iv) for iv in case["ivs"])
        if case["kind"] == "trunc":
            prefixes = []
            for j in range(len(cs) + 1):
                r = ctx.impl.ask("liftover %s %s" % (ch.src_one(ch.render_case(cs[:j])) if j else "-", ivs))
                prefixes.append(lift_obs(r))
            offsets = case.get("offsets") or range(len(data) + 1)
            lines_at = set()
            off = 0
            for l in data.split(b"\n"):
                lines_at.add(off)
                off += len(l) + 1
            for k in offsets:
                i, m = both(ctx, ev, "liftover %s %s" % (ch.src_one(data[:k]), ivs))
                if lift_obs(i) != lift_obs(m):
                    ev.corr = "cut at %d: impl %r vs model %r" % (k, i[:200], m[:200])
                o = lift_obs(i)
                if o[0].startswith("panic") or i == "abort":
                    ev.judge = "panic when cut at byte %d" % k
                    break
                if o[0].startswith("ok") and o not in prefixes:
                    ev.judge = "cut at byte %d of %d builds a machine that matches no whole-chain prefix: %s" % (k, len(data), i[:300])
                    case_offsets = [k]
                    break
                if k not in lines_at and k - 1 not in lines_at:
                    ev.nontrivial = (case_key2(cs), k)
                ev.tags.append("cut:" + o[0].split(" ")[0] + (" " + " ".join(o[0].split(" ")[1:4]) if o[0].startswith("err") else ""))
        else:
            rng = random.Random(case["seed"])
            events = rng.choice(ch.chunkings(rng, data, k=3)[1:])
            base_b = ctx.impl.ask("build %s" % ch.src_events(events))
            base_s = ctx.impl.ask("sections %s %d" % (ch.src_events(events), 4 * len(data)))
            base_l = ctx.impl.ask("lines %s" % ch.src_events(events))
            base_r = ctx.impl.ask("raw %s" % ch.src_events(events))
            positions = case.get("positions") or range(len(events) + 1)
            for k in positions:
                for kind in (rng.choice(ch.FAULT_KINDS), rng.choice(ch.FAULT_KINDS), "i"):
                    evs = events[:k] + [kind] + events[k:]
                    src = ch.src_events(evs)
                    i, m = both(ctx, ev, "build " + src)
                    if build_class(i) != build_class(m):
                        ev.corr = "fault %s at %d: impl %r vs model %r" % (kind, k, i[:200], m[:200])
                    i2, m2 = both(ctx, ev, "sections %s %d" % (src, 4 * len(data)))
                    if blank_norm(i2.split(" ; ")) != blank_norm(m2.split(" ; ")):
                        ev.corr = "fault %s at %d (sections): impl %r vs model %r" % (kind, k, i2[:200], m2[:200])
                    # the other reading methods over the same faulty stream: lines() and read_line_raw()
                    i3, m3 = both(ctx, ev, "lines " + src)
                    if i3 != m3:
                        ev.corr = "fault %s at %d (lines): impl %r vs model %r" % (kind, k, i3[:200], m3[:200])
                    i4, m4 = both(ctx, ev, "raw " + src)
                    if i4 != m4:
                        ev.corr = "fault %s at %d (raw): impl %r vs model %r" % (kind, k, i4[:200], m4[:200])
                    if kind == "i":
                        if i3 != base_l or i4 != base_r:
                            ev.judge = "an Interrupted read at position %d changed what lines()/read_line_raw() return: %s" % (k, i3[-200:])
                    else:
                        # a one-shot hard failure surfaces exactly once, as an I/O error item, and reading goes on
                        # to the end of the input afterwards: never a silently shortened sequence of lines
                        l3 = i3.split(" ; ")
                        if l3.count("io") != 1 or l3[-1] != "eof":
                            ev.judge = "a failing read at position %d did not surface from lines() as one I/O error item: ...%s" % (k, " ; ".join(l3[-4:])[:200])
                        elif i4.split(" ").count("io") != 1 or not i4.endswith("eof"):
                            ev.judge = "a failing read at position %d did not surface from read_line_raw() as one I/O error: ...%s" % (k, i4[-200:])
                    if kind == "i":
                        if i != base_b or i2 != base_s:
                            ev.judge = "an Interrupted read at position %d changed the result: %s" % (k, i[:200])
                    else:
                        if k < len(events) and i != "err sections E io":
                            ev.judge = "a failing read at position %d gave %s" % (k, i[:200])
                        if k < len(events) and "E io" not in i2.split(" ; "):
                            ev.judge = "a failing read at position %d did not surface from sections(): %s" % (k, i2[:200])
                        if "panic" in i or "panic" in i2:
                            ev.judge = "panic after a failing read at position %d" % k
                        # never a silently shortened / altered section: whatever sections the iterator still
                        # yields around the failure must be sections of the file
                        good = set(x for x in base_s.split(" ; ") if x.startswith("S "))
                        for x in i2.split(" ; "):
                            if x.startswith("S ") and x not in good:
                                ev.judge = "after a failing read at position %d the iterator yielded a section that is not in the file: %s" % (k, x[:200])
                    ev.tags.append("fault:" + kind)
                    if kind != "i" and k == len(events):
                        # a failure after the last byte: still the error of the call in progress (end of input
                        # has not been seen yet)
                        if i != "err sections E io":
                            ev.judge = "a failing read at the end of the data gave %s" % i[:200]
                    if 0 < k < len(events):
                        ev.nontrivial = (case_key2(cs), case["seed"], k, kind)
                if ev.judge:
                    break
        return ev

    def shrink(self, case):
        for csx in ch.shrink_chains(case["chains"]):
            c = copy.deepcopy(case)
            c["chains"] = csx
            c.pop("offsets", None)
            c.pop("positions", None)
            yield c


def py_spec_next(canon, i):
    """python statement of the grammar on canonical line strings: one `next()` of a section iterator at
    rest, from line index i. returns (item kind, lines consumed)"""
    n = len(canon)
    k = i
    while k < n and canon[k] == "empty":
        k += 1
    if k == n:
        return ("done", k - i)
    c = canon[k]
    if c in ("io", "utf8"):
        return ("E io", k + 1 - i)
    if c == "err":
        return ("E unparsable", k + 1 - i)
    if c.startswith("data"):
        return ("E databetween", k + 1 - i)
    # header
    hdr = c[len("header "):]
    recs = []
    k += 1
    while True:
        if k == n:
            return ("E abrupt", k - i)
        c = canon[k]
        if c == "empty":
            return ("E blank", k + 1 - i)
        if c.startswith("header"):
            return ("E headerin", k + 1 - i)
        if c in ("io", "utf8"):
            return ("E io", k + 1 - i)
        if c == "err":
            return ("E unparsable", k + 1 - i)
        recs.append(c[len("data "):])
        k += 1
        if c.endswith(" T"):
            return ("S " + hdr + "".join(" | " + r for r in recs), k - i)


@register
class C17(Prop):
    id = "C17"
    title = "One cursor: every reading method consumes the stream strictly line by line"
    rule = ("files (valid, with errors, with invalid UTF-8 lines) x random histories of reader operations of length <= 12 (quick) / "
            "<= 40 (thorough) over {read_line_raw, read_line, k calls on a fresh lines(), k calls on a fresh sections()}, 20% with the stream handed to a new Reader (into_inner + Reader::new) between two operations; judge = a "
            "single cursor over the list of lines (from one `lines()` pass over the same bytes): every operation must observe "
            "exactly the next lines, in order, and a yielded section must end the consumption at its terminating line; "
            "5% of the files carry a line of 64 KiB or more (a header with a huge contig name, or junk); non-trivial = the history mixes >= 3 kinds of operation and yields a section; distinct by (file, history)")

    _canon_cache = {}

    def cases(self, rng, tier):
        for _ in range(400 if tier == "quick" else 40000):
            lines = gen_line_case(rng, tier)
            if rng.random() < 0.6:
                chains = ch.gen_file(rng, max_chains=3)
                lines = []
                for c in chains:
                    lines += c.lines() + [""] * rng.choice([0, 1, 2])
            if rng.random() < 0.25:
                # stray lines inside otherwise ordinary files (comment-like lines, a byte order mark, blanks with
                # white space, junk): each is ONE line for every reading method
                for _ in range(rng.randint(1, 3)):
                    lines.insert(rng.randint(0, len(lines)), rng.choice(JUNK))
            raw = [l.encode("utf-8", "surrogateescape") for l in lines]
            if rng.random() < 0.1 and raw:
                raw[rng.randrange(len(raw))] = b"\xff\xfe"
            if rng.random() < 0.05 and raw:
                # a very long line (around and beyond 64 KiB): a header with a huge contig name, or junk
                n = rng.choice([65535, 65536, 65537, 70000, 131072 + 5])
                k = rng.randrange(len(raw))
                if rng.random() < 0.5:
                    raw[k] = ("chain 0 " + "N" * n + " 9 + 0 9 b 9 + 0 9 1").encode("utf-8", "surrogateescape")
                else:
                    raw[k] = b"x" * n
            nops = rng.randint(1, 12 if tier == "quick" else 40)
            ops = []
            for _ in range(nops):
                r = rng.random()
                if r < 0.3:
                    ops.append("raw")
                elif r < 0.55:
                    ops.append("line")
                elif r < 0.75:
                    ops.append("lines%d" % rng.randint(0, 4))
                else:
                    ops.append("secs%d" % rng.choice([0, 1, 1, 2, 3]))
            if rng.random() < 0.2:
                # hand the stream to a new Reader between two operations (into_inner + Reader::new): no line is lost or skipped
                ops.insert(rng.randint(1, len(ops)), "reopen")
            case = {"kind": "ops", "lines": [l.hex() for l in raw], "ops": ops, "eol": rng.choice(["\n", "\r\n"]),
                    "final_newline": rng.random() < 0.6}
            if rng.random() < 0.25 and raw:
                # the stream arrives in two pieces cut at a line boundary, with a one-shot hard failure or a transient
                # Interrupted between them: whatever is behind the boundary is not there yet when the line before it is
                # read (a reading method that peeks beyond its line meets the failure one call too early)
                nl = len(raw) if case["final_newline"] else len(raw) - 1
                case["fault"] = [rng.randint(0, nl), rng.choice(["f", "f", "i"])]
            elif rng.random() < 0.35:
                # the stream arrives in pieces (one byte at a time, a few random cuts, a cut between CR and LF)
                case["chunks"] = rng.randint(0, 10 ** 6)
            yield case

    def evaluate(self, ctx, case):
        ev = Eval()
        eol = case["eol"].encode("utf-8", "surrogateescape")
        raw = [bytes.fromhex(h) for h in case["lines"]]
        data = eol.join(raw) + (eol if case["final_newline"] and raw else b"")
        src = ch.src_one(data)
        fault = case.get("fault")
        if fault:
            # (a shrunk case may have fewer lines: the cut stays on a line boundary, never behind an unterminated line)
            fault = [min(fault[0], max(0, len(raw) if case["final_newline"] else len(raw) - 1)), fault[1]]
            cut = sum(len(t) + len(eol) for t in raw[:fault[0]])
            src = ch.src_events([("c", data[:cut]), fault[1], ("c", data[cut:])])
            ev.tags.append("fault:" + fault[1])
        elif case.get("chunks") is not None and 0 < len(data) <= 3000:
            r_ = random.Random(case["chunks"])
            sched = ch.chunkings(r_, data, k=3)
            pos = data.find(b"\r\n")
            if pos >= 0:
                sched.append([("c", data[:pos + 1]), ("c", data[pos + 1:])])
            src = ch.src_events(r_.choice(sched))
            ev.tags.append("chunked")
        i, m = both(ctx, ev, "ops %s %s" % (src, ",".join(case["ops"])))
        im, mm = [blank_norm(x.split(" / ")) for x in i.split(" ; ")], [blank_norm(x.split(" / ")) for x in m.split(" ; ")]
        if im != mm:
            ev.corr = "impl %r vs model %r" % (i[:300], m[:300])
        # ground truth: the lines of the file as it was written (not as any reader reports them)
        rawl, canon = [], []
        nl = len(raw)
        for k, t in enumerate(raw):
            last = (k == nl - 1)
            if last and not case["final_newline"] and t == b"":
                break                       # an empty last text without terminator is no line at all
            n = len(t) + (0 if (last and not case["final_newline"]) else len(eol))
            try:
                t.decode("utf-8")
                valid = True
            except UnicodeDecodeError:
                valid = False
            if not valid:
                rawl.append("utf8")
                canon.append("utf8")
                continue
            rawl.append("L%d:%s" % (n, hx(t)))
            if t in self._canon_cache:
                canon.append(self._canon_cache[t])
            else:
                r = ctx.impl.ask("line " + hx(t))
                c = r.split(" print=")[0][3:] if r.startswith("ok") else "err"
                if len(t) < 200:
                    self._canon_cache[t] = c
                canon.append(c)
        if fault and fault[1] == "f":
            # a hard failure between two lines is observed exactly once, by the read that reaches it, like a line
            rawl.insert(fault[0], "io")
            canon.insert(fault[0], "io")
        cur = 0
        kinds = set()
        yielded = False
        if "reopen" in case["ops"]:
            ev.tags.append("op:reopen")
        for op, obs in zip([o for o in case["ops"] if o != "reopen"], i.split(" ; ")):
            if op == "raw":
                kinds.add("raw")
                want = rawl[cur] if cur < len(rawl) else "eof"
                if obs != want:
                    ev.judge = "read_line_raw at line %d observed %s, expected %s" % (cur, obs, want)
                    break
                cur += 1 if cur < len(rawl) else 0
            elif op == "line":
                kinds.add("line")
                if cur >= len(canon):
                    want = "none"
                else:
                    c = canon[cur]
                    want = {"io": "err io", "utf8": "err utf8", "err": "err err"}.get(c, "ok " + c)
                if obs != want:
                    ev.judge = "read_line at line %d observed %s, expected %s" % (cur, obs, want)
                    break
                cur += 1 if cur < len(canon) else 0
            elif op.startswith("lines"):
                kinds.add("lines")
                items = obs.split(" / ")[1:]
                for it in items:
                    want = canon[cur] if cur < len(canon) else "eof"
                    if it != want:
                        ev.judge = "lines() at line %d observed %s, expected %s" % (cur, it, want)
                        break
                    cur += 1 if cur < len(canon) else 0
                if ev.judge:
                    break
            else:
                kinds.add("secs")
                items = obs.split(" / ")[1:]
                for it in items:
                    want, used = py_spec_next(canon, cur)
                    got = it if it.startswith("S ") or it == "done" else " ".join(it.split(" ")[:2])
                    if got != want:
                        ev.judge = "sections() at line %d yielded %s, a single cursor gives %s" % (cur, it[:120], want[:120])
                        break
                    cur += used
                    yielded = yielded or it.startswith("S ")
                if ev.judge:
                    break
        for k in kinds:
            ev.tags.append("op:" + k)
        if len(kinds) >= 3 and yielded:
            ev.nontrivial = case_key2(case)
        return ev

    def shrink(self, case):
        for k in range(len(case["ops"])):
            if len(case["ops"]) > 1:
                c = copy.deepcopy(case)
                del c["ops"][k]
                yield c
        for k in range(len(case["lines"])):
            c = copy.deepcopy(case)
            del c["lines"][k]
            yield c


# ==========================================================================================
# C13 / C14 — records and lines
# ==========================================================================================

ODD_NAMES = ["chr1", "a", "", "x:y", "a\tb", "chr_Un-1.2", "é中", "chain", "1", "+"]


def gen_num(rng, style=True):
    v = rng.choice([0, 1, 2, 9, 10, 255, 2 ** 32, U64 - 1, U64]) if rng.random() < 0.4 else rng.randint(0, 10 ** rng.randint(1, 19))
    v = min(v, U64)
    if style and rng.random() < 0.25:
        return rng.choice(["+", "0", "00", "+0"]) + str(v), v
    return str(v), v


def gen_header_text(rng, valid=True, distinct=True):
    def side():
        size = rng.randint(0, 10 ** rng.randint(1, 19)) if rng.random() < 0.5 else rng.choice([0, 5, 77, U64])
        size = min(size, U64)
        a = rng.randint(0, size)
        b = rng.randint(a, size)
        if not valid and rng.random() < 0.5:
            k = rng.random()
            if k < 0.4:
                a, b = b + 1, a
            elif k < 0.8:
                b = min(U64, size + rng.randint(1, 3))
        return [rng.choice(ODD_NAMES), size, rng.choice("+-"), a, b]
    r, q = side(), side()
    if rng.random() < 0.15:
        # a self-alignment-like header: the query side repeats the reference side, entirely or but for one field
        q = list(r)
        k = rng.choice([None, 0, 1, 2, 3, 4, 4, 4])
        if k == 0:
            q[0] = rng.choice(ODD_NAMES)
        elif k == 1:
            q[1] = min(U64, q[1] + rng.randint(1, 9))
        elif k == 2:
            q[2] = "-" if q[2] == "+" else "+"
        elif k == 3:
            q[3] = rng.randint(0, max(0, q[4]))
        elif k == 4:
            q[4] = rng.randint(min(q[3], q[1]), max(q[3], q[1]))
    fields = ["chain", rng.randint(0, 10 ** 9)] + r + q + [rng.randint(0, 10 ** 6)]
    out = []
    for f in fields:
        if isinstance(f, int):
            s = str(f)
            if rng.random() < 0.12:
                s = rng.choice(["+", "0", "000"]) + s
            out.append(s)
        else:
            out.append(f)
    if not valid and rng.random() < 0.4:
        k = rng.randrange(len(out))
        out[k] = rng.choice(["", "x", "-1", "18446744073709551616", "*", " ", "1e3"])
    if not valid and rng.random() < 0.15:
        out = out[:rng.randint(1, 12)]
    if not valid and rng.random() < 0.08:
        out[0] = rng.choice(["chains", "chainX", "chain\t", "chain0"])
    return " ".join(out)


def gen_data_text(rng, valid=True):
    n = rng.choice([1, 3]) if valid else rng.choice([1, 2, 3, 4, 0])
    fs = [gen_num(rng)[0] for _ in range(n)]
    if not valid and n == 4 and rng.random() < 0.5:
        fs[3] = rng.choice(["", "x", "7"])
    if not valid and fs and rng.random() < 0.5:
        fs[rng.randrange(len(fs))] = rng.choice(["", "x", "-0", "18446744073709551616", " 5", "5 ", "5\r"])
    return "\t".join(fs)


def is_canon_num(s):
    return s.isdigit() and s.isascii() and str(int(s)) == s


@register
class C13(Prop):
    id = "C13"
    title = "Print/parse round trip for records, lines and whole files"
    rule = ("header lines with odd contig names (empty, ':', TAB, non-ASCII, 'chain', digits), numbers from 0 to u64::MAX with '+', "
            "leading zeros, mostly distinct values in same-typed fields; data lines with 1 or 3 fields; malformed variants; whole "
            "generated files re-serialised from the printed lines (header, data lines, blank line): judge = the printed text parses "
            "back to the same record and prints identically again, canonical text prints back byte-identically, the re-serialised "
            "file yields equal sections and equal liftover answers; non-trivial = an accepted line with a non-canonical numeral or "
            "an odd name, or a file with >= 2 sections (files include zero-size blocks, also as the last block of a chain); distinct by text")

    def cases(self, rng, tier):
        n = 3000 if tier == "quick" else 100000
        for k in range(n):
            r = rng.random()
            if r < 0.5:
                yield {"kind": "line", "text": gen_header_text(rng, valid=rng.random() < 0.8)}
            elif r < 0.9:
                yield {"kind": "line", "text": gen_data_text(rng, valid=rng.random() < 0.8)}
            else:
                chains = ch.gen_file(rng, max_chains=3, zero_prob=0.2, odd_names=True) if rng.random() < 0.8 else ch.gen_big_file(rng)
                if rng.random() < 0.25:
                    # names with multi-byte characters (the bytes of a re-serialisation sit at other offsets)
                    ren = {}
                    for c in chains:
                        for side in (c.ref, c.qry):
                            side.name = ren.setdefault(side.name, side.name + rng.choice(["\u00e9", "\u4e2d", "\U0001F9EC", "\u00e9\u4e2d"]))
                if rng.random() < 0.25:
                    # the same reference blocks aligned to several query contigs (copies of one chain under other query
                    # names): blocks with identical reference start and end, whose order in an answer is the file's
                    c0 = rng.choice(chains)
                    for k in range(rng.randint(2, 4)):
                        d = ch.chain_from_dict(ch.chain_to_dict(c0))
                        d.qry.name = "dup%d" % k
                        d.cid = c0.cid + 100 + k
                        chains.insert(rng.randint(0, len(chains)), d)
                    ch.fix_sizes(rng, chains)
                if rng.random() < 0.2:
                    # a self chain: query contig, size, strand and start repeat the reference's; only the ends differ
                    # (by the gaps)
                    c = rng.choice(chains)
                    c.qry.name, c.qry.strand, c.qry.start = c.ref.name, c.ref.strand, c.ref.start
                    c.qry.end = c.qry.start + c.qry_extent()
                    ch.fix_sizes(rng, chains)
                    m_ = max([x.ref.size for x in chains if x.ref.name == c.ref.name] + [x.qry.size for x in chains if x.qry.name == c.ref.name])
                    for x in chains:
                        for sd in (x.ref, x.qry):
                            if sd.name == c.ref.name:
                                sd.size = m_
                ivs = [list(ch.gen_interval(rng, chains)) for _ in range(8)]
                yield {"kind": "file", "chains": [ch.chain_to_dict(c) for c in chains], "style": ch.style_to_dict(ch.gen_style(rng)), "ivs": ivs}

    def evaluate(self, ctx, case):
        ev = Eval()
        if case["kind"] == "line":
            t = case["text"]
            i, m = both(ctx, ev, "line " + hx(t))
            if i != m:
                ev.corr = "impl %r vs model %r" % (i[:300], m[:300])
            ev.tags.append(" ".join(i.split(" ")[:2]))
            if i.startswith("panic") and not m.startswith("panic"):
                # the harness prints every parsed value twice, with a print into a sink that is too small in between,
                # and panics when the two texts differ (or the library's own Display panicked)
                ev.judge = "parsing or printing %r panicked, or the printed text depends on what was printed before" % t
                return ev
            if not i.startswith("ok"):
                return ev
            canon, pr = i.rsplit(" print=", 1)
            pr, _, eq = pr.partition(" eq=")
            if pr == "err":
                ev.judge = "Display failed"
                return ev
            if eq != "true":
                ev.judge = "the printed text does not parse back to an EQUAL record (`==` after a read-only query): %r" % t
                return ev
            i2 = ctx.impl.ask("line " + pr)
            ev.requests.append("line " + pr)
            if i2 != i:
                ev.judge = "printed text %r parses to %r, original %r" % (ch.unhx(pr), i2[:200], i[:200])
                return ev
            fields = t.split(" ") if t.startswith("chain") else t.split("\t")
            nums = [fields[k] for k in ((1, 3, 5, 6, 8, 10, 11, 12) if t.startswith("chain") else range(len(fields)))] if t else []
            if all(is_canon_num(x) for x in nums):
                if ch.unhx(pr) != t.encode("utf-8", "surrogateescape"):
                    ev.judge = "canonical text %r printed back as %r" % (t, ch.unhx(pr))
            else:
                ev.nontrivial = t
            if t.startswith("chain") and fields[2] not in ("chr1", "a"):
                ev.nontrivial = t
        else:
            data = ch.render_case(case["chains"], case["style"])
            src = ch.src_one(data)
            ivs = ",".join(iv_tok(*iv) for iv in case["ivs"])
            i, m = both(ctx, ev, "liftover %s %s" % (src, ivs))
            if lift_obs(i) != lift_obs(m):
                ev.corr = "impl %r vs model %r" % (i[:300], m[:300])
            if not i.startswith("ok"):
                ev.tags.append("file:" + i.split(" ")[0])
                return ev
            secs = ctx.impl.ask("sections %s 1000" % src)
            r, rm = both(ctx, ev, "reser " + src)
            if r != rm:
                ev.corr = "re-serialisation: impl %r vs model %r" % (r[:300], rm[:300])
            if not r.startswith("ok "):
                ev.judge = "the sections of an accepted file could not be re-serialised: " + r[:100]
                return ev
            r, _, eq = r.partition(" eq=")
            if eq != "true":
                ev.judge = "the re-serialised file does not parse to EQUAL sections (`==` after stepping through the originals)"
                return ev
            src2 = "c" + r[4:] if len(r) > 4 else "-"
            secs2 = ctx.impl.ask("sections %s 1000" % src2)
            i2 = ctx.impl.ask("liftover %s %s" % (src2, ivs))
            ev.requests.append("liftover %s %s" % (src2, ivs))
            if secs2 != secs:
                ev.judge = "re-serialised file parses to different sections: %s vs %s" % (secs2[:200], secs[:200])
            elif i2 != i:
                ev.judge = "re-serialised file builds a machine with different answers: %s vs %s" % (i2[:200], i[:200])
            else:
                r3 = ctx.impl.ask("reser " + src2).partition(" eq=")[0]
                if r3 != r:
                    ev.judge = "canonical text does not print back byte-identically (second re-serialisation differs)"
            if not ev.judge:
                # the same reader configuration on both files: a buffered reader of capacity k (the stream arrives in
                # k-byte pieces). Where the original is accepted, the re-serialisation — whose bytes sit at other offsets
                # (canonical numbers, one blank line after every section) — must be accepted too, with equal sections.
                data2 = bytes.fromhex(r[4:]) if len(r) > 4 else b""
                kr = random.Random(case_key(case))
                # buffer sizes: a few fixed ones, and ones that put a buffer boundary INSIDE a multi-byte character or
                # between CR and LF of the re-serialisation (k = offset of the boundary: the first refill happens there)
                inside = [o for o in range(1, len(data2)) if (data2[o] & 0xC0) == 0x80 or data2[o - 1:o + 1] == b"\r\n"]
                for k in kr.sample([1, 2, 3, 5, 7, 16, 17, 31, 64], 3) + kr.sample(inside, min(4, len(inside))):
                    pieces = lambda d: ch.src_events([("c", d[o:o + k]) for o in range(0, len(d), k)]) if d else "-"
                    a = ctx.impl.ask("sections %s 1000" % pieces(data))
                    if a != secs:
                        continue        # chunking changes the original's parse: C12's business, not a round-trip matter
                    b2 = ctx.impl.ask("sections %s 1000" % pieces(data2))
                    ev.requests.append("sections %s 1000" % pieces(data2))
                    if b2 != secs:
                        ev.judge = ("read through a buffer of %d bytes the original parses to %s but its re-serialisation to %s"
                                    % (k, secs[:160], b2[:160]))
                        break
            ev.tags.append("file:ok")
            if len(case["chains"]) >= 2:
                ev.nontrivial = case_key(case)
        return ev

    def shrink(self, case):
        if case["kind"] == "line":
            t = case["text"]
            sep = " " if t.startswith("chain") else "\t"
            fs = t.split(sep)
            for k in range(len(fs)):
                if len(fs[k]) > 1:
                    f2 = list(fs)
                    f2[k] = fs[k][:-1]
                    yield {"kind": "line", "text": sep.join(f2)}
        else:
            for cs in ch.shrink_chains(case["chains"]):
                c = copy.deepcopy(case)
                c["chains"] = cs
                yield c


@register
class C14(Prop):
    id = "C14"
    title = "Record validation invariants and strand-aware sequence-to-interval conversion"
    profiles = ["ovf", "wrap"]
    rule = ("strings offered as header / data lines (valid and malformed), (name,size,strand,start,end) string tuples offered to "
            "Sequence::try_from_str_parts with values at 0, 1, size, size±1, 2^32, u64::MAX and beyond, (size,dt,dq,kind) tuples offered "
            "to Record::try_new, numerals offered to u64/usize::from_str directly (signs, leading zeros, 2^64 boundary, non-ASCII digits); both arithmetic configurations; judge = the statement of C14 on the implementation's output "
            "(start<=end<=size, kind by field count, gaps iff non-terminating, '+' start..end, '-' size-start down to size-end, "
            "end>size never wrapped or panicking); non-trivial = accepted value at a boundary, or end>size; distinct by input")

    def cases(self, rng, tier):
        n = 4000 if tier == "quick" else 150000
        for _ in range(n):
            r = rng.random()
            if r < 0.3:
                yield {"kind": "line", "text": gen_header_text(rng, valid=rng.random() < 0.6)}
            elif r < 0.5:
                yield {"kind": "line", "text": gen_data_text(rng, valid=rng.random() < 0.6)}
            elif r < 0.85:
                size = rng.choice([0, 1, 2, 10, 2 ** 32, U64 - 1, U64]) if rng.random() < 0.6 else rng.randint(0, 100)
                pts = [0, 1, size, max(0, size - 1), min(U64, size + 1), min(U64, size + 3), U64, rng.randint(0, max(1, size))]
                a, b = rng.choice(pts), rng.choice(pts)
                if rng.random() < 0.8 and a > b:
                    a, b = b, a
                parts = [rng.choice(ODD_NAMES), str(size), rng.choice(["+", "-", "-", "*", ""]) if rng.random() < 0.1 else rng.choice("+-"), str(a), str(b)]
                if rng.random() < 0.08:
                    parts[rng.choice([1, 3, 4])] = rng.choice(["", "x", "18446744073709551616", "-1", "+7", "007"])
                yield {"kind": "seq", "parts": parts}
            elif r < 0.93:
                base = rng.choice(["0", "7", "42", "18446744073709551615", "18446744073709551616", "18446744073709551614",
                                   "99999999999999999999", "00000000000000000000000007", str(rng.randint(0, 10 ** 21))])
                deco = rng.choice(["", "", "", "+", "-", "++", " ", "0", "0x", "\uff11"])
                tail = rng.choice(["", "", "", " ", "\r", "_", "a", ".0", "\u0663"])
                yield {"kind": "num", "text": rng.choice(["", "+", "-", deco + base + tail, base])}
            else:
                v = lambda: rng.choice([None, 0, 1, U64, rng.randint(0, 100)])
                yield {"kind": "rec_new", "size": rng.choice([0, 1, U64, rng.randint(0, 99)]), "dt": v(), "dq": v(), "k": rng.choice("TN")}

    def evaluate(self, ctx, case):
        ev = Eval()
        if case["kind"] == "line":
            req = "line " + hx(case["text"])
        elif case["kind"] == "num":
            req = "num " + hx(case["text"])
        elif case["kind"] == "seq":
            req = "seq " + " ".join(hx(p) for p in case["parts"])
        else:
            o = lambda x: "_" if x is None else str(x)
            req = "rec_new %d %s %s %s" % (case["size"], o(case["dt"]), o(case["dq"]), case["k"])
        i, m = both(ctx, ev, req)
        w = ctx.impl_wrap.ask(req) if ctx.impl_wrap else i
        if i != m:
            ev.corr = "impl %r vs model %r" % (i[:300], m[:300])
        ev.tags.append(case["kind"] + ":" + " ".join(x for x in i.split(" ")[:2] if not x.isdigit()))
        if "panic" in (i.split(" ")[0], w.split(" ")[0]) or "abort" in (i, w):
            ev.judge = "panic (overflow-checked: %s, unchecked: %s)" % (i[:100], w[:100])
            return ev
        if w != i:
            ev.judge = "result depends on the arithmetic configuration: checked %s, unchecked %s" % (i[:200], w[:200])
            return ev
        if case["kind"] == "num":
            t = case["text"]
            body = t[1:] if t.startswith("+") else t
            ok = body != "" and all(c in "0123456789" for c in body) and int(body) <= U64
            want = "ok %d" % int(body) if ok else "err"
            if i != want:
                ev.judge = "number %r: expected %s, got %s" % (t, want, i)
            ev.nontrivial = t
        elif case["kind"] == "line" and i.startswith("ok header"):
            t = i.split(" print=")[0].split(" ")
            for s in (t[3], t[4]):
                name, size, strand, a, b = s.rsplit(",", 4)
                if strand not in "+-" or not (0 <= int(a) <= int(b) <= int(size) <= U64):
                    ev.judge = "accepted header violates start<=end<=size: " + s
            ev.nontrivial = case["text"]
        elif case["kind"] == "line" and i.startswith("ok data"):
            t = i.split(" print=")[0].split(" ")
            nf = len(case["text"].split("\t"))
            kind, dt, dq = t[5], t[3], t[4]
            if (kind == "T") != (nf == 1) or (kind == "N") != (nf == 3) or ((dt == "_") != (kind == "T")) or ((dq == "_") != (kind == "T")):
                ev.judge = "accepted data record violates kind/field-count/gap invariants: " + i
            ev.nontrivial = case["text"]
        elif case["kind"] == "rec_new":
            ok = (case["k"] == "N" and case["dt"] is not None and case["dq"] is not None) or \
                 (case["k"] == "T" and case["dt"] is None and case["dq"] is None)
            if ok != i.startswith("ok"):
                ev.judge = "Record::try_new(%s): expected %s, got %s" % (req, "ok" if ok else "err", i)
            ev.nontrivial = req
        elif case["kind"] == "seq" and i.startswith("ok"):
            name, size, strand, a, b = i.split(" ")[1].rsplit(",", 4)
            size, a, b = int(size), int(a), int(b)
            iv = i.split(" iv=")[1]
            if not (a <= b):
                ev.judge = "accepted sequence with start > end"
            elif b <= size:
                lo, hi = (a, b) if strand == "+" else (size - b, size - a)
                want = iv_tok(ch.unhx(name).decode(), strand, lo, hi)
                if iv != want:
                    ev.judge = "interval of %s: expected %s, got %s" % (i.split(" ")[1], want, iv)
                if a in (0, size) or b in (0, size):
                    ev.nontrivial = req
            else:
                want = iv_tok(ch.unhx(name).decode(), "+", a, b) if strand == "+" else "err_oob"
                if iv != want:
                    ev.judge = "end > size: expected %s, got %s" % (want, iv)
                ev.nontrivial = req
        return ev

    def neighbours(self, case, rng):
        if case["kind"] == "seq":
            for idx in (1, 3, 4):
                for d in (-1, 1):
                    try:
                        v = int(case["parts"][idx]) + d
                    except ValueError:
                        continue
                    if 0 <= v <= U64:
                        c = copy.deepcopy(case)
                        c["parts"][idx] = str(v)
                        yield c
            c = copy.deepcopy(case)
            c["parts"][2] = "-" if c["parts"][2] == "+" else "+"
            yield c


# ==========================================================================================
# C06 — panic freedom; C18 — sharing across threads
# ==========================================================================================

def gen_wide_line(rng):
    """a long line (100-300 bytes) with 1-, 2-, 3- and 4-byte UTF-8 characters at varying offsets"""
    pieces = []
    n = 0
    target = rng.randint(100, 300)
    while n < target:
        c = rng.choice(["a", "7", " ", "\t", "é", "染", "😀", "chain", "+", "0"])
        pieces.append(c)
        n += len(c.encode("utf-8", "surrogateescape"))
    head = rng.choice(["", "chain 0 ", "#", "5\t"])
    return (head + "".join(pieces)).encode("utf-8", "surrogateescape")


def gen_wild_bytes(rng):
    k = rng.random()
    if k < 0.12:
        lines = [gen_wide_line(rng) for _ in range(rng.randint(1, 3))]
        if rng.random() < 0.5:
            lines.insert(0, rng.choice(HEADERS).encode("utf-8", "surrogateescape"))
        return b"\n".join(lines) + b"\n"
    if k < 0.3:
        return bytes(rng.randrange(256) for _ in range(rng.randint(0, 60)))
    if k < 0.6:
        alphabet = b"chain 0123456789+-\t\n\r\n\n  acgtq\xff"
        return bytes(rng.choice(alphabet) for _ in range(rng.randint(0, 120)))
    lines = [render_class(rng, rng.choice(CLASSES)) for _ in range(rng.randint(0, 9))]
    return ch.render_lines(lines, rng.choice(["\n", "\r\n"]), rng.random() < 0.5)


def gen_exotic_chains(rng):
    chains = ch.gen_file(rng, zero_prob=0.3) if rng.random() < 0.7 else ch.gen_big_file(rng)
    cs = [ch.chain_to_dict(c) for c in chains]
    if rng.random() < 0.3 and cs:
        d = copy.deepcopy(rng.choice(cs))
        side = rng.choice(["ref", "qry"])
        d[side][1] += rng.choice([1, 5])
        cs.insert(rng.randrange(len(cs) + 1), d)
    return cs


@register
class C06(Prop):
    id = "C06"
    title = "Panic freedom: no byte stream and no query interval makes the library panic"
    profiles = ["ovf", "wrap"]
    rule = ("every operation of the protocol (raw reads, lines(), sections() drained past errors, step-through of every parseable "
            "section, build, liftover, reader histories, line/record/sequence constructors, pair algebra inside its quantifier) on "
            "valid files, exotic files (zero-size blocks, redeclared contig sizes, coordinates at 2^32/2^63/2^64), single- and "
            "multi-point corruptions, grammar-random and byte-random streams, invalid UTF-8, with chunked and faulty readers, "
            "intervals of every kind (zero-length, unknown contig, up to u64::MAX) — in both arithmetic configurations (overflow "
            "checks on and off), whose outputs must also be identical; plus the static inventory of panic-capable sites; "
            "non-trivial = a request that reaches an error path or a boundary value; distinct by request")

    def static_checks(self, ctx):
        from . import inventory
        import os
        unacc, removed, sharing = inventory.compare(os.path.join(os.path.dirname(os.path.dirname(__file__)), "lean", "panic_sites.json"))
        self.inventory = {"unaccounted": unacc, "removed": removed}
        if unacc:
            return [("corr", "source inventory: panic-capable sites in /repo/src that the model does not account for "
                             "(lean/panic_sites.json): " + "; ".join(unacc))]
        return []

    def cases(self, rng, tier):
        n = 6000 if tier == "quick" else 300000
        for _ in range(n):
            k = rng.random()
            if k < 0.25:
                cs = gen_exotic_chains(rng)
                chains = [ch.chain_from_dict(c) for c in cs]
                ivs = [list(ch.gen_interval(rng, chains)) for _ in range(8)]
                yield {"kind": "lift", "chains": cs, "style": ch.style_to_dict(ch.gen_style(rng)), "ivs": ivs}
            elif k < 0.45:
                cs = canonical_file(rng)
                muts = list(mutations(rng, cs))
                label, lines = rng.choice(muts)
                if rng.random() < 0.3:
                    label2, lines2 = rng.choice(muts)
                    lines = lines[:len(lines) // 2] + lines2[len(lines2) // 2:]
                chains = [ch.chain_from_dict(c) for c in cs]
                yield {"kind": "stream", "data": ch.render_lines(lines, rng.choice(["\n", "\r\n"])).hex(),
                       "ivs": [list(ch.gen_interval(rng, chains)) for _ in range(4)], "faults": rng.random() < 0.3, "seed": rng.randint(0, 2 ** 31)}
            elif k < 0.7:
                yield {"kind": "stream", "data": gen_wild_bytes(rng).hex(), "ivs": [["a", "+", 0, 5], ["chr1", "-", 3, 3], ["b", "+", U64 - 1, U64]],
                       "faults": rng.random() < 0.3, "seed": rng.randint(0, 2 ** 31)}
            elif k < 0.8:
                yield gen_step_case(rng)
            elif k < 0.9:
                yield {"kind": "line", "text": rng.choice([gen_header_text(rng, valid=False), gen_data_text(rng, valid=False)])}
            else:
                size = rng.choice([0, 1, 2, 10, U64])
                yield {"kind": "seq", "parts": [rng.choice(ODD_NAMES), str(size), rng.choice("+-"), str(rng.choice([0, 1, size, U64])), str(rng.choice([0, 1, size, min(U64, size + 1), U64]))]}

    def requests(self, case):
        reqs = []
        if case["kind"] == "lift":
            data = ch.render_case(case["chains"], case["style"])
            ivs = ",".join(iv_tok(*iv) for iv in case["ivs"])
            reqs.append("liftover %s %s" % (ch.src_one(data), ivs))
            n = data.count(b"\n") + 2
            reqs.append("sections %s %d" % (ch.src_one(data), 4 * n))
        elif case["kind"] == "stream":
            data = bytes.fromhex(case["data"])
            rng = random.Random(case["seed"])
            events = [("c", data)] if not case["faults"] else rng.choice(ch.chunkings(rng, data, k=2))
            if case["faults"]:
                for _ in range(rng.randint(1, 3)):
                    events.insert(rng.randint(0, len(events)), rng.choice(ch.FAULT_KINDS + ["i", "i"]))
            src = ch.src_events(events)
            n = data.count(b"\n") + len(events) + 2
            ivs = ",".join(iv_tok(*iv) for iv in case["ivs"])
            reqs += ["raw " + src, "lines " + src, "sections %s %d" % (src, 4 * n), "liftover %s %s" % (src, ivs),
                     "ops %s %s" % (src, ",".join(rng.choice(["raw", "line", "lines2", "secs2", "secs1"]) for _ in range(6)))]
        elif case["kind"] == "step":
            reqs.append(step_request(case, 4 * len(case["recs"]) + 8)[0])
        elif case["kind"] == "line":
            reqs.append("line " + hx(case["text"]))
        else:
            reqs.append("seq " + " ".join(hx(p) for p in case["parts"]))
        return reqs

    def evaluate(self, ctx, case):
        ev = Eval()
        for req in self.requests(case):
            i, m = both(ctx, ev, req)
            if i == "hang":
                ev.judge = "%s did not return within the time limit: neither a value nor an error (the model answers %s)" % (req.split(" ")[0], m[:120])
                return ev
            w = ctx.impl_wrap.ask(req) if ctx.impl_wrap else i
            ip = "panic" in i.split(" ") or i == "abort" or "panic" in i.split(" ; ")
            wp = "panic" in w.split(" ") or w == "abort" or "panic" in w.split(" ; ")
            mp = "panic" in m.split(" ")
            op = req.split(" ")[0]
            ev.tags.append(op + (":panic" if ip or wp else ""))
            if ip or wp:
                ev.judge = "%s panicked (overflow checks %s): %s" % (op, "on" if ip else "off", (i if ip else w)[:200])
                return ev
            if w != i:
                ev.judge = "%s: result depends on the arithmetic configuration: checked %s, unchecked %s" % (op, i[:200], w[:200])
                return ev
            if mp != ip:
                ev.corr = "model panics, implementation does not: " + m[:200]
            if any(t in i for t in ("E ", "err", "none", "io", "utf8")):
                ev.nontrivial = hash(req)
        return ev

    def shrink(self, case):
        if case["kind"] == "lift":
            for cs in ch.shrink_chains(case["chains"]):
                c = copy.deepcopy(case)
                c["chains"] = cs
                yield c
            for k in range(len(case["ivs"])):
                if len(case["ivs"]) > 1:
                    c = copy.deepcopy(case)
                    c["ivs"] = [case["ivs"][k]]
                    yield c
        elif case["kind"] == "stream":
            data = bytes.fromhex(case["data"])
            lines = data.split(b"\n")
            for k in range(len(lines)):
                c = copy.deepcopy(case)
                c["data"] = b"\n".join(lines[:k] + lines[k + 1:]).hex()
                yield c
            if case["faults"]:
                c = copy.deepcopy(case)
                c["faults"] = False
                yield c
        elif case["kind"] == "step":
            for c in StepBase.shrink(self, case):
                yield c

    def neighbours(self, case, rng):
        return iter(())


@register
class C18(Prop):
    id = "C18"
    level = "other"
    title = "Machine is shareable across threads; concurrent use equals sequential use (partial)"
    rule = ("rustc compiles the probe crate harness/sendsync against /repo (static Send + Sync assertions for Machine, "
            "ContiguousIntervalPair, the answer type and every error type; 'static for Machine); the source inventory finds no "
            "`unsafe`, Cell/RefCell/Rc, `static mut` or thread_local!; generated files x query lists are answered on one thread "
            "and on 8 threads sharing one Arc<Machine>, on 12 FRESH machines each (first accesses released by a barrier; 300 rounds on the first, 12 on the others, different offsets and strides, every query issued 1-3 times in a row), and compared with the sequential answers of a separate machine "
            "and with the model; non-trivial = a query list with >= 1 non-empty answer; distinct by (file, queries)")
    trusted = ["rustc's Send/Sync auto-trait checking and borrow checker (the argument for real interleavings)",
               "the probe crate /verif/harness/sendsync"]

    def _build_probe(self):
        import os, shutil, subprocess
        from . import build
        d = os.path.join(build.HARNESS, "sendsync")
        with build.Lock():
            shutil.copyfile(os.path.join(build.REPO, "Cargo.lock"), os.path.join(d, "Cargo.lock"))
            r = subprocess.run(["cargo", "build", "--offline", "--release"], cwd=d, env=build.env(),
                               stdout=subprocess.PIPE, stderr=subprocess.STDOUT, text=True)
        return d, r

    def pre_static(self):
        """the type-level obligations: decided by rustc on the probe crate, before anything else is built.
        Only a failure of a Send/Sync/'static bound is a violation of the property; any other compile error
        is a broken tie and is left to static_checks / the harness build to report."""
        d, r = self._build_probe()
        if r.returncode != 0 and ("cannot be shared between threads safely" in r.stdout or
                                  "cannot be sent between threads safely" in r.stdout or
                                  "may not live long enough" in r.stdout or "does not live long enough" in r.stdout):
            import re
            types = sorted(set(re.findall(r"assert_(?:send_sync|static)::<([^>]*(?:<[^>]*>)?[^>]*)>", r.stdout)))
            return [("judge", "a public type is no longer Send + Sync (+ 'static): the static assertion(s) on %s in "
                              "harness/sendsync no longer compile against /repo:\n%s" % (types or "(see below)", r.stdout[-4000:]))]
        return []

    def static_checks(self, ctx):
        import os
        from . import build, inventory
        out = []
        d, r = self._build_probe()
        if r.returncode != 0:
            out.append(("judge", "the Send/Sync probe crate no longer compiles against /repo:\n" + r.stdout[-4000:]))
            return out
        self.probe = os.path.join(d, "target", "release", "cfsendsync")
        _, sharing = inventory.scan()
        unsafe = {k: v for k, v in sharing.items() if k.endswith("::unsafe")}
        shared = {k: v for k, v in sharing.items() if not k.endswith("::unsafe")}
        if unsafe:
            out.append(("judge", "unsafe code found in /repo/src: %s" % unsafe))
        if shared:
            # the model's premise (a query is a read-only step on an immutable machine) is no longer
            # tied to the code: look for a failing interleaving, report no-failing-input-found otherwise
            out.append(("corr", "interior mutability / shared mutable state in /repo/src that the model of "
                                "Machine::liftover (a pure function of an immutable machine) does not account for: %s" % shared))
        return out

    def cases(self, rng, tier):
        for _ in range(25 if tier == "quick" else 1200):
            chains = ch.gen_file(rng) if rng.random() < 0.9 else ch.gen_big_file(rng)
            ivs = [list(ch.gen_interval(rng, chains)) for _ in range(24)]
            yield {"kind": "threads", "chains": [ch.chain_to_dict(c) for c in chains], "ivs": ivs}

    def evaluate(self, ctx, case):
        import subprocess
        ev = Eval()
        data = ch.render_case(case["chains"])
        ivs = [iv for iv in case["ivs"] if all(ord(c) < 128 for c in iv[0])]
        def plain(iv):
            a, b = (iv[2], iv[3]) if iv[1] == "+" else (iv[3], iv[2])
            return "%s:%s:%d-%d" % (iv[0], iv[1], a, b)
        inp = data.hex() + "\n" + "\n".join(plain(iv) for iv in ivs) + "\n"
        try:
            r = subprocess.run([self.probe], input=inp, stdout=subprocess.PIPE, stderr=subprocess.PIPE, text=True, timeout=120)
        except subprocess.TimeoutExpired:
            ev.requests.append("cfsendsync <file> <%d intervals>" % len(ivs))
            ev.judge = ("8 threads sharing one machine did not finish %d liftovers each within 120 s (the sequential run of the "
                        "same calls takes milliseconds): concurrent calls block one another" % len(ivs))
            return ev
        ev.requests.append("cfsendsync <file> <%d intervals>" % len(ivs))
        ev.impl.append(r.stdout[:500])
        lines = r.stdout.strip().split("\n")
        if r.returncode != 0 or len(lines) != 2 or not lines[0].startswith("seq ") or not lines[1].startswith("par "):
            ev.judge = "threaded probe failed: rc=%d %s %s" % (r.returncode, r.stdout[:200], r.stderr[:200])
            return ev
        seq = lines[0][4:]
        for t, p in enumerate(lines[1][4:].split("|")):
            if p != "ok":
                ev.judge = "concurrent answers differ from the sequential run: " + p[:300]
                return ev
        # against the model
        m = ctx.model.ask("liftover %s %s" % (ch.src_one(data), ",".join(iv_tok(*iv) for iv in ivs)))
        ev.model.append(m[:500])
        mb, ma = parse_liftover_reply(m)
        want = []
        for tag, pairs in ma:
            if tag != "some":
                want.append("none")
            else:
                def show(p):
                    a = "%s:%s:%d-%d" % ((p[0], p[1]) + ((p[2], p[3]) if p[1] == "+" else (p[3], p[2])))
                    b = "%s:%s:%d-%d" % ((p[4], p[5]) + ((p[6], p[7]) if p[5] == "+" else (p[7], p[6])))
                    return a + " -> " + b
                want.append(",".join(show(p) for p in pairs))
        if ";".join(want) != seq:
            ev.corr = "sequential answers differ from the model: %r vs %r" % (seq[:200], ";".join(want)[:200])
        if any(a != "none" for a in seq.split(";")):
            ev.nontrivial = case_key2(case)
        ev.tags.append("threads=8")
        return ev
