import os
import sys

from . import core
from .props import PROPS


def main(argv):
    if len(argv) < 2:
        print("usage: check <id> quick|thorough [--replay file]", file=sys.stderr)
        return 2
    pid = argv[1]
    tier = os.environ.get("VERIF_TIER") or "quick"
    replay = None
    args = argv[2:]
    i = 0
    while i < len(args):
        if args[i] in ("quick", "thorough"):
            tier = args[i]
        elif args[i] == "--replay":
            replay = args[i + 1]
            i += 1
        i += 1
    seed = int(os.environ.get("VERIF_SEED") or "20260930")
    if pid not in PROPS:
        print("unknown property %s" % pid, file=sys.stderr)
        return 2
    r = core.Runner(PROPS[pid](), tier, seed, replay)
    return r.run()


if __name__ == "__main__":
    sys.exit(main(sys.argv))
