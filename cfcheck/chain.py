"""Chain-file values, renderers, generators and the codec of the line protocol."""
import copy
import random

U64 = 2 ** 64 - 1


def hx(b):
    if isinstance(b, str):
        b = b.encode("utf-8", "surrogateescape")
    return "x" + b.hex()


def unhx(s):
    assert s.startswith("x"), s
    return bytes.fromhex(s[1:])


# ------------------------------------------------------------------------------------------
# values
# ------------------------------------------------------------------------------------------

class Side:
    def __init__(self, name, size, strand, start, end):
        self.name, self.size, self.strand, self.start, self.end = name, size, strand, start, end

    def fields(self, num=str):
        return [self.name, num(self.size), self.strand, num(self.start), num(self.end)]


class Chain:
    """blocks: list of (size, dt, dq); the gaps of the last block are ignored (terminating line)."""

    def __init__(self, score, ref, qry, cid, blocks):
        self.score, self.ref, self.qry, self.cid, self.blocks = score, ref, qry, cid, blocks

    def header(self, num=str):
        return " ".join(["chain", num(self.score)] + self.ref.fields(num) + self.qry.fields(num) + [num(self.cid)])

    def data_lines(self, num=str):
        out = []
        for i, (s, dt, dq) in enumerate(self.blocks):
            if i + 1 < len(self.blocks):
                out.append("\t".join([num(s), num(dt), num(dq)]))
            else:
                out.append(num(s))
        return out

    def lines(self, num=str):
        return [self.header(num)] + self.data_lines(num)

    def ref_extent(self):
        return sum(b[0] for b in self.blocks) + sum(b[1] for b in self.blocks[:-1])

    def qry_extent(self):
        return sum(b[0] for b in self.blocks) + sum(b[2] for b in self.blocks[:-1])


def fwd_iv(side, x, n):
    """forward [lo, hi) of local [x, x+n) on a side"""
    if side.strand == "+":
        return (x, x + n)
    return (side.size - (x + n), side.size - x)


def chain_blocks(c):
    """spec-level blocks of a chain: (ref name, ref strand, rlo, rhi, qry name, qry strand, qlo, qhi)"""
    out = []
    t, q = c.ref.start, c.qry.start
    for i, (s, dt, dq) in enumerate(c.blocks):
        rlo, rhi = fwd_iv(c.ref, t, s)
        qlo, qhi = fwd_iv(c.qry, q, s)
        out.append((c.ref.name, c.ref.strand, rlo, rhi, c.qry.name, c.qry.strand, qlo, qhi))
        if i + 1 < len(c.blocks):
            t += s + dt
            q += s + dq
    return out


def render(chains, eol="\n", final_newline=True, blank_between=1, blank_before=0, blank_after=0, num=str):
    """bytes of a file. blank_between >= 0 blank lines after each section's terminating line."""
    lines = [""] * blank_before
    for i, c in enumerate(chains):
        lines += c.lines(num)
        if i + 1 < len(chains):
            lines += [""] * blank_between
    lines += [""] * blank_after
    text = eol.join(lines)
    if final_newline and lines:
        text += eol
    # lines may carry arbitrary bytes as surrogate escapes (invalid UTF-8 for the reader)
    return text.encode("utf-8", "surrogateescape")


def render_lines(lines, eol="\n", final_newline=True):
    text = eol.join(lines)
    if final_newline and lines:
        text += eol
    # lines may carry arbitrary bytes as surrogate escapes (invalid UTF-8 for the reader)
    return text.encode("utf-8", "surrogateescape")


# ------------------------------------------------------------------------------------------
# protocol encodings
# ------------------------------------------------------------------------------------------

def src_one(data):
    return "c" + data.hex() if data else "-"


def src_events(events):
    """events: list of ('c', bytes) | 'i' | 'f'"""
    toks = []
    for e in events:
        if isinstance(e, str):
            toks.append(e)
        elif e[1]:
            toks.append("c" + e[1].hex())
    return ",".join(toks) if toks else "-"


def iv_tok(name, strand, lo, hi):
    """interval in forward [lo, hi] -> protocol token with start/end in strand direction"""
    a, b = (lo, hi) if strand == "+" else (hi, lo)
    return "%s:%s:%d-%d" % (hx(name), strand, a, b)


def parse_iv(tok):
    c, st, se = tok.split(":")
    a, b = se.split("-")
    a, b = int(a), int(b)
    lo, hi = (a, b) if st == "+" else (b, a)
    return (unhx(c).decode(), st, lo, hi)


def parse_pair(tok):
    r, q = tok.split(">")
    return parse_iv(r) + parse_iv(q)


def parse_lift(reply):
    """'none' | 'some p p ..' | 'panic' -> ('none'|'some'|'panic'|..., [pairs])"""
    t = reply.split(" ")
    if t[0] == "some":
        return ("some", [parse_pair(x) for x in t[1:]])
    return (t[0], [])


# ------------------------------------------------------------------------------------------
# generators
# ------------------------------------------------------------------------------------------

REF_NAMES = ["chr1", "chr2", "a"]
QRY_NAMES = ["chr1", "q1", "b"]


def gen_blocks(rng, nmax=6, long_prob=0.15, zero_prob=0.0):
    n = rng.choice([1, 1, 2, 2, 3, 3, 4, 5, nmax])
    blocks = []
    for _ in range(n):
        if rng.random() < zero_prob:
            s = 0
        elif rng.random() < long_prob:
            s = rng.randint(15, 40)
            if rng.random() < 0.12:
                # a really long block (beyond 2^16, where windowing, 16-bit counters and short-cuts would show)
                s = rng.choice([65535, 65536, 65537, 70000, 131072, 200000, 2 ** 20 + 3])
        else:
            s = rng.randint(1, 8)
        dt = rng.choice([0, 0, 1, 2, 5])
        dq = rng.choice([0, 0, 1, 2, 5])
        blocks.append((s, dt, dq))
    return blocks


def gen_chain(rng, cid, ref_names=REF_NAMES, qry_names=QRY_NAMES, **kw):
    blocks = gen_blocks(rng, **kw)
    c = Chain(rng.randint(0, 1000), None, None, cid, blocks)
    rstart = rng.choice([0, 0, 1, 3, 7])
    qstart = rng.choice([0, 0, 2, 5])
    rname = rng.choice(ref_names)
    qname = rng.choice(qry_names)
    c.ref = Side(rname, 0, rng.choice("+-"), rstart, rstart + c.ref_extent())
    c.qry = Side(qname, 0, rng.choice("+-"), qstart, qstart + c.qry_extent())
    return c


def fix_sizes(rng, chains, slack=(0, 0, 1, 4, 9)):
    """give every (side, name) one size that fits all its chains"""
    for side in ("ref", "qry"):
        need = {}
        for c in chains:
            s = getattr(c, side)
            need[s.name] = max(need.get(s.name, 0), s.end)
        size = {n: v + rng.choice(slack) for n, v in need.items()}
        for n in size:
            if size[n] == 0:
                size[n] = 1
        for c in chains:
            s = getattr(c, side)
            s.size = size[s.name]


ODD_CONTIGS = ["", "x:y", "\u00e9\u4e2d", "Chr1", "chr1.1", "a\tb", "-", "+",
               # names that collide under case folding, Unicode normalisation, numeric reading, truncation or hashing-by-prefix
               "chr1", "CHR1", "\u00e9", "e\u0301", "1", "01", "chr1_random", "N" * 300, "N" * 299 + "M", "chr1:+:0-5", "#c", "chain"]


def gen_file(rng, max_chains=5, odd_names=False, **kw):
    n = rng.choice([1, 1, 2, 2, 3, 4, max_chains])
    chains = [gen_chain(rng, i + 1, **kw) for i in range(n)]
    if odd_names and rng.random() < 0.12:
        # contig names the format allows but tools rarely see: empty, with ':' or TAB, non-ASCII, case variants
        ren = {}
        for c in chains:
            for side in (c.ref, c.qry):
                if rng.random() < 0.5:
                    ren.setdefault(side.name, rng.choice(ODD_CONTIGS))
        for c in chains:
            for side in (c.ref, c.qry):
                side.name = ren.get(side.name, side.name)
    if rng.random() < 0.05:
        for c in chains:
            c.score = rng.choice([0, U64, 2 ** 32])
            c.cid = rng.choice([0, U64])
    fix_sizes(rng, chains)
    return chains


def gen_many(rng):
    """many short chains on one reference contig, with coinciding starts and nested spans (a larger interval tree)"""
    n = rng.randint(25, 70)
    chains = []
    for i in range(n):
        blocks = [(rng.randint(1, 6), rng.choice([0, 1, 3]), rng.choice([0, 2]))] * rng.choice([1, 1, 2])
        if rng.random() < 0.1:
            blocks = [(rng.randint(40, 90), 0, 0)]
        c = Chain(i, None, None, i + 1, list(blocks))
        rstart = rng.choice([0, 5, 5, 10, 10, 17, rng.randint(0, 60)])
        qstart = rng.randint(0, 20)
        c.ref = Side("chr1", 0, rng.choice("++-"), rstart, rstart + c.ref_extent())
        c.qry = Side(rng.choice(["q1", "q2"]), 0, rng.choice("+-"), qstart, qstart + c.qry_extent())
        chains.append(c)
    fix_sizes(rng, chains)
    return chains


def gen_big_file(rng):
    """coordinates near 2^32 and 2^64"""
    base = rng.choice([2 ** 32 - 20, 2 ** 63, U64 - 200])
    chains = []
    for i in range(rng.randint(1, 2)):
        c = gen_chain(rng, i + 1)
        for side in (c.ref, c.qry):
            off = base - rng.randint(0, 30)
            ext = side.end - side.start
            side.start = off - ext if off - ext >= 0 else 0
            side.end = side.start + ext
        chains.append(c)
    for side in ("ref", "qry"):
        need = {}
        for c in chains:
            s = getattr(c, side)
            need[s.name] = max(need.get(s.name, 0), s.end)
        size = {}
        for n, v in need.items():
            size[n] = U64 if rng.random() < 0.3 else min(U64, v + (0 if rng.random() < 0.5 else rng.randint(0, 100)))
        for c in chains:
            s = getattr(c, side)
            s.size = size[s.name]
    return chains


def boundaries(chains, name):
    pts = set([0])
    for c in chains:
        if c.ref.name == name:
            pts.add(c.ref.size)
            for b in chain_blocks(c):
                pts.update([b[2], b[3]])
    return sorted(pts)


def gen_interval(rng, chains, nonempty=False):
    """(name, strand, lo, hi) biased to block boundaries ±1"""
    names = sorted(set(c.ref.name for c in chains))
    r = rng.random()
    if r < 0.07:
        name = "nochr"
    else:
        name = rng.choice(names)
    strand = rng.choice("+-")
    pts = boundaries(chains, name) if name != "nochr" else [0, 10]
    cand = set()
    for p in pts:
        for d in (-1, 0, 1):
            if 0 <= p + d <= U64:
                cand.add(p + d)
    cand = sorted(cand)
    top = max(pts) + 3
    def pick():
        if rng.random() < 0.7:
            return rng.choice(cand)
        if rng.random() < 0.05:
            return rng.choice([U64, U64 - 1, 2 ** 32])
        return rng.randint(0, top)
    a, b = pick(), pick()
    if not nonempty and rng.random() < 0.1:
        # an empty operand, preferably on a block boundary (where zero-size blocks and block ends sit)
        b = a
    lo, hi = min(a, b), max(a, b)
    if nonempty and lo == hi:
        if hi < U64:
            hi += 1
        else:
            lo -= 1
    return (name, strand, lo, hi)


def all_intervals(name, size, extra=2):
    out = []
    for strand in "+-":
        for lo in range(0, size + extra + 1):
            for hi in range(lo, size + extra + 1):
                out.append((name, strand, lo, hi))
    return out


NUM_STYLES = [str, str, str, lambda n: "+" + str(n), lambda n: "0" + str(n), lambda n: "000" + str(n)]


def gen_style(rng):
    return dict(eol=rng.choice(["\n", "\n", "\r\n"]), final_newline=rng.random() < 0.7,
                blank_between=rng.choice([0, 1, 1, 2]), blank_before=rng.choice([0, 0, 1]),
                blank_after=rng.choice([0, 0, 2]), num=rng.choice(NUM_STYLES))


def chunkings(rng, data, k=3):
    """a few chunk schedules of `data` as event lists"""
    out = [[("c", data[i:i + 1]) for i in range(len(data))]]
    for _ in range(k):
        cuts = sorted(set(rng.randint(0, len(data)) for _ in range(rng.randint(1, 6))))
        prev, ev = 0, []
        for c in cuts + [len(data)]:
            if c > prev:
                ev.append(("c", data[prev:c]))
                prev = c
        out.append(ev)
    return out


# ------------------------------------------------------------------------------------------
# JSON-able cases
# ------------------------------------------------------------------------------------------

def split_chain(rng, chains):
    """cut one chain of a well-formed file in two at a block boundary (in place, the second half directly after the
    first): with the gap at the cut kept, or removed so that the second chain starts exactly where the first one
    ends on both sequences. The file stays well-formed (sizes do not change, extents only shrink)."""
    cand = [k for k, c in enumerate(chains) if len(c.blocks) >= 2]
    if not cand:
        return chains
    k = rng.choice(cand)
    c = chains[k]
    cut = rng.randint(1, len(c.blocks) - 1)
    s, dt, dq = c.blocks[cut - 1]
    if rng.random() < 0.7:
        dt = dq = 0
    a_blocks = [tuple(b) for b in c.blocks[:cut - 1]] + [(s, 0, 0)]
    b_blocks = [tuple(b) for b in c.blocks[cut:]]
    a = Chain(c.score, copy.deepcopy(c.ref), copy.deepcopy(c.qry), c.cid, a_blocks)
    a.ref.end = a.ref.start + a.ref_extent()
    a.qry.end = a.qry.start + a.qry_extent()
    b = Chain(c.score, copy.deepcopy(c.ref), copy.deepcopy(c.qry), max(x.cid for x in chains) + 1 if max(x.cid for x in chains) < U64 else c.cid, b_blocks)
    b.ref.start = a.ref.end + dt
    b.qry.start = a.qry.end + dq
    b.ref.end = b.ref.start + b.ref_extent()
    b.qry.end = b.qry.start + b.qry_extent()
    if b.ref.end > b.ref.size or b.qry.end > b.qry.size:
        return chains
    return chains[:k] + [a, b] + chains[k + 1:]


def chain_to_dict(c):
    return {"score": c.score, "id": c.cid,
            "ref": [c.ref.name, c.ref.size, c.ref.strand, c.ref.start, c.ref.end],
            "qry": [c.qry.name, c.qry.size, c.qry.strand, c.qry.start, c.qry.end],
            "blocks": [list(b) for b in c.blocks]}


def chain_from_dict(d):
    return Chain(d["score"], Side(*d["ref"]), Side(*d["qry"]), d["id"], [tuple(b) for b in d["blocks"]])


def style_to_dict(st, rng=None):
    d = dict(st)
    d["num"] = NUM_STYLES.index(st["num"]) if st["num"] in NUM_STYLES else 0
    return d


def style_from_dict(d):
    st = dict(d)
    st["num"] = NUM_STYLES[d.get("num", 0)]
    return st


PLAIN = {"eol": "\n", "final_newline": True, "blank_between": 1, "blank_before": 0, "blank_after": 0, "num": 0}


def render_case(chains_d, style_d=None):
    return render([chain_from_dict(c) for c in chains_d], **style_from_dict(style_d or PLAIN))


def recompute_ends(d):
    """after editing blocks of a chain dict: make the header ends match the records again"""
    c = chain_from_dict(d)
    d["ref"][4] = d["ref"][3] + c.ref_extent()
    d["qry"][4] = d["qry"][3] + c.qry_extent()
    d["ref"][1] = max(d["ref"][1], d["ref"][4])
    d["qry"][1] = max(d["qry"][1], d["qry"][4])


def shrink_chains(chains_d, allow_zero=True):
    """smaller well-formed variants of a list of chain dicts"""
    import copy as _c
    n = len(chains_d)
    for i in range(n):
        if n > 1:
            yield chains_d[:i] + chains_d[i + 1:]
    for i in range(n):
        nb = len(chains_d[i]["blocks"])
        for j in range(nb):
            if nb > 1:
                cs = _c.deepcopy(chains_d)
                del cs[i]["blocks"][j]
                recompute_ends(cs[i])
                yield cs
        for j in range(nb):
            for f in (0, 1, 2):
                v = chains_d[i]["blocks"][j][f]
                for nv in ([0, v // 2] if f else [1, v // 2]):
                    if nv < v and (f or nv >= (0 if allow_zero else 1)):
                        cs = _c.deepcopy(chains_d)
                        cs[i]["blocks"][j][f] = nv
                        recompute_ends(cs[i])
                        yield cs
        for side in ("ref", "qry"):
            if chains_d[i][side][3] > 0:
                cs = _c.deepcopy(chains_d)
                d = cs[i][side][3]
                cs[i][side][3] = 0
                cs[i][side][4] -= d
                yield cs


def names_sizes(chains_d, side):
    out = {}
    for c in chains_d:
        out.setdefault(c[side][0], set()).add(c[side][1])
    return out


FAULT_KINDS = ["f", "fu", "fw", "ft", "fb", "fr", "fp"]
