"""Run one property's check: corpus, generated cases, correspondence + judges, shrinking,
failing-input search, known findings, evidence. See DESIGN.md §3.4."""
import hashlib
import json
import os
import random
import sys
import time

from . import build
from .proc import Server

VERIF = build.VERIF


class Eval:
    """result of evaluating one case"""

    def __init__(self):
        self.requests = []      # protocol lines sent
        self.impl = []          # implementation replies
        self.model = []         # model replies
        self.corr = None        # None or text: model and implementation differ on obs_P
        self.judge = None       # None or text: the implementation's output violates the property
        self.tags = []          # distribution tags (branches, error kinds, ...)
        self.nontrivial = None  # hashable key if the case is non-trivial by the property's rule


class Ctx:
    def __init__(self, impl_bin, model_bin, impl_wrap_bin=None):
        self.impl = Server([impl_bin], "impl")
        self.model = Server([model_bin], "model")
        self.impl_wrap = Server([impl_wrap_bin], "impl-wrap") if impl_wrap_bin else None
        self.impl_bin = impl_bin

    def close(self):
        self.impl.close()
        self.model.close()
        if self.impl_wrap:
            self.impl_wrap.close()


class Prop:
    """base class of a property check"""
    id = None
    title = ""
    rule = ""
    profiles = ["ovf"]
    trusted = []
    assumptions = []

    def corpus(self):
        d = os.path.join(VERIF, "corpus", self.id)
        out = []
        if os.path.isdir(d):
            for f in sorted(os.listdir(d)):
                if f.endswith(".json"):
                    out.append(json.load(open(os.path.join(d, f))))
        return out

    def cases(self, rng, tier):
        return iter(())

    def evaluate(self, ctx, case):
        raise NotImplementedError

    def shrink(self, case):
        return iter(())

    def neighbours(self, case, rng):
        return iter(())

    def pre_static(self):
        """obligations decided without the correspondence harness (before it is built)"""
        return []

    def static_checks(self, ctx):
        """property-specific checks that are not case-based (inventory, rustc probes).
        Returns a list of (kind, text) failures; kind in {'judge','corr'}."""
        return []


def case_hash(case):
    return hashlib.sha256(json.dumps(case, sort_keys=True).encode()).hexdigest()[:12]


def load_known():
    p = os.path.join(VERIF, "known_findings.json")
    if not os.path.exists(p):
        return []
    return json.load(open(p)).get("findings", [])


def matches_known(prop_id, case, ev, known):
    """an open finding matches by property and by its witness class: op kind + failure signature"""
    for k in known:
        if k.get("status") != "open" or k.get("property") != prop_id:
            continue
        sig = k.get("signature", {})
        if sig.get("kind") and sig["kind"] != case.get("kind"):
            continue
        if sig.get("judge_contains") and (ev.judge is None or sig["judge_contains"] not in ev.judge):
            continue
        return k
    return None


class Runner:
    def __init__(self, prop, tier, seed, replay=None):
        self.prop = prop
        self.tier = tier
        self.seed = seed
        self.replay = replay
        self.t0 = time.time()
        self.evals = 0
        self.requests = 0
        self.nontrivial = set()
        self.tags = {}
        self.samples = []
        self.disagreements = 0
        self.judge_failures = 0
        self.violations = []
        self.known_hits = []
        self.audit = {}
        self.notes = []

    # -- evaluation helpers ---------------------------------------------------------------
    def run_case(self, ctx, case):
        ev = self.prop.evaluate(ctx, case)
        self.evals += 1
        self.requests += len(ev.requests)
        for t in ev.tags:
            self.tags[t] = self.tags.get(t, 0) + 1
        if ev.nontrivial is not None:
            self.nontrivial.add(ev.nontrivial)
        if len(self.samples) < 3 and ev.nontrivial is not None and not ev.corr and not ev.judge:
            self.samples.append({"case": case, "requests": ev.requests[:3], "impl": ev.impl[:3]})
        return ev

    def shrink(self, ctx, case, pred):
        """greedy structure-aware shrinking; pred(ev) says the failure is still there"""
        budget = 400
        deadline = time.time() + 180          # (a failure that is a hang costs a time-out per accepted candidate)
        improved = True
        while improved and budget > 0 and time.time() < deadline:
            improved = False
            for cand in self.prop.shrink(case):
                budget -= 1
                if budget <= 0 or time.time() > deadline:
                    break
                try:
                    ev = self.prop.evaluate(ctx, cand)
                except Exception:
                    continue
                if pred(ev):
                    case = cand
                    improved = True
                    break
        return case

    def write_replay(self, case, ev, kind, extra=None):
        os.makedirs(os.path.join(VERIF, "replays"), exist_ok=True)
        path = os.path.join(VERIF, "replays", "%s-%s.json" % (self.prop.id, case_hash(case)))
        doc = {
            "property": self.prop.id,
            "kind": kind,
            "case": case,
            "requests": ev.requests,
            "implementation": ev.impl,
            "model": ev.model,
            "judge": ev.judge,
            "correspondence": ev.corr,
            "seed": self.seed,
            "tier": self.tier,
            "replay_cmd": "./check %s --replay %s" % (self.prop.id, path),
        }
        if extra:
            doc.update(extra)
        json.dump(doc, open(path, "w"), indent=1, sort_keys=True)
        return path

    def report_judge(self, ctx, case, ev, known):
        self.judge_failures += 1
        sig = (ev.judge or "")[:18]
        case = self.shrink(ctx, case, lambda e: e.judge is not None and e.judge[:18] == sig)
        ev = self.prop.evaluate(ctx, case)
        k = matches_known(self.prop.id, case, ev, known)
        if k:
            if k["id"] not in self.known_hits:
                self.known_hits.append(k["id"])
                print("KNOWN-FINDING: property=%s %s" % (self.prop.id, k["what"]))
            return False
        path = self.write_replay(case, ev, "property-violated-by-implementation")
        print("VIOLATION property=%s replay=%s" % (self.prop.id, path))
        self.violations.append(path)
        return True

    def search_failing(self, ctx, case, rng):
        """model and implementation disagree but the judge is ok: look for an input on which the
        property fails (shrunk forms, neighbourhood, extra generator budget)."""
        tried = 0
        deadline = time.time() + 300       # (candidates on which the implementation hangs cost a time-out each)
        for cand in self.prop.shrink(case):
            tried += 1
            if tried > 150 or time.time() > deadline:
                break
            ev = self.prop.evaluate(ctx, cand)
            if ev.judge:
                return cand, ev
        for cand in self.prop.neighbours(case, rng):
            tried += 1
            if tried > 600 or time.time() > deadline:
                break
            ev = self.prop.evaluate(ctx, cand)
            if ev.judge:
                return cand, ev
        extra = random.Random(self.seed ^ 0x5EED)
        n = 0
        for cand in self.prop.cases(extra, "thorough"):
            n += 1
            if n > 3000 or time.time() - self.t0 > 600 or time.time() > deadline:
                break
            ev = self.prop.evaluate(ctx, cand)
            if ev.judge:
                return cand, ev
        return None, None

    def report_corr(self, ctx, case, ev, known, rng):
        self.disagreements += 1
        case = self.shrink(ctx, case, lambda e: e.corr is not None or e.judge is not None)
        ev = self.prop.evaluate(ctx, case)
        if ev.judge:
            return self.report_judge(ctx, case, ev, known)
        found, fev = self.search_failing(ctx, case, rng)
        if found is not None:
            return self.report_judge(ctx, found, fev, known)
        ob = build.obligations(self.prop.id)
        path = self.write_replay(case, ev, "correspondence-broken", {
            "broken": "model/implementation correspondence for the operation(s) " +
                      ", ".join(sorted(set(r.split(" ")[0] for r in ev.requests))),
            "theorems_no_longer_tied_to_the_code": ob["theorems"],
            "note": "no input was found on which the property itself fails; the property is no longer shown to hold",
        })
        print("VIOLATION property=%s replay=%s no-failing-input-found" % (self.prop.id, path))
        self.violations.append(path)
        return True

    # -- main -------------------------------------------------------------------------------
    def run(self):
        prop = self.prop
        known = load_known()
        rng = random.Random(self.seed)
        bins = {}
        # obligations that do not need the correspondence harness (type-level ones: the compiler is the
        # judge and the offending type is the witness) are decided first, so that a change of the public
        # types is reported as what it is and not as "the harness no longer compiles"
        pre = [t for k, t in prop.pre_static() if k == "judge"]
        if pre:
            os.makedirs(os.path.join(VERIF, "replays"), exist_ok=True)
            path = os.path.join(VERIF, "replays", "%s-static.json" % prop.id)
            json.dump({"property": prop.id, "kind": "property-violated-by-implementation (static obligation)", "detail": pre[0]},
                      open(path, "w"), indent=1)
            print("VIOLATION property=%s replay=%s" % (prop.id, path))
            self.violations.append(path)
            self.write_evidence()
            return 1
        try:
            for prof in prop.profiles:
                bins[prof], _ = build.build_impl(prof)
        except build.BuildError as e:
            # the correspondence harness no longer compiles against /repo: broken tie
            os.makedirs(os.path.join(VERIF, "replays"), exist_ok=True)
            path = os.path.join(VERIF, "replays", "%s-build.json" % prop.id)
            json.dump({"property": prop.id, "kind": "correspondence-broken",
                       "broken": e.what, "detail": e.detail,
                       "theorems_no_longer_tied_to_the_code": build.obligations(prop.id)["theorems"]},
                      open(path, "w"), indent=1)
            print("VIOLATION property=%s replay=%s no-failing-input-found" % (prop.id, path))
            self.violations.append(path)
            self.write_evidence()
            return 1
        try:
            model_bin, self.audit = build.build_lean(prop.id, leanchecker=(self.tier == "thorough"))
        except build.BuildError as e:
            print("BROKEN-MACHINERY property=%s %s\n%s" % (prop.id, e.what, e.detail), file=sys.stderr)
            print("VIOLATION property=%s replay=%s no-failing-input-found" % (prop.id, "lean-build"))
            return 1
        ctx = Ctx(bins["ovf"], model_bin, bins.get("wrap"))
        try:
            stop = False
            deferred = []
            if self.replay:
                doc = json.load(open(self.replay))
                stream = [doc["case"]]
            else:
                deferred = []
                for kind, text in prop.static_checks(ctx):
                    if kind == "corr":
                        # a broken static tie (e.g. an unaccounted panic site): search for a failing input
                        # with the normal run first; reported at the end if none is found
                        deferred.append(text)
                        continue
                    path = os.path.join(VERIF, "replays", "%s-static.json" % prop.id)
                    os.makedirs(os.path.dirname(path), exist_ok=True)
                    json.dump({"property": prop.id, "kind": "property-violated-by-implementation (static obligation)", "detail": text},
                              open(path, "w"), indent=1)
                    print("VIOLATION property=%s replay=%s" % (prop.id, path))
                    self.violations.append(path)
                    stop = True
                stream = self._stream(rng)
            if not stop:
                for case in stream:
                    ev = self.run_case(ctx, case)
                    if ev.judge:
                        if self.report_judge(ctx, case, ev, known):
                            break
                    elif ev.corr:
                        if self.report_corr(ctx, case, ev, known, rng):
                            break
            if deferred and not self.violations:
                # extra budget of the thorough generator, looking for an input on which the property fails
                extra = random.Random(self.seed ^ 0xFACE)
                n = 0
                for case in prop.cases(extra, "thorough"):
                    n += 1
                    if n > 4000 or time.time() - self.t0 > 300:
                        break
                    ev = self.run_case(ctx, case)
                    if ev.judge and self.report_judge(ctx, case, ev, known):
                        break
                if not self.violations:
                    path = os.path.join(VERIF, "replays", "%s-static.json" % prop.id)
                    os.makedirs(os.path.dirname(path), exist_ok=True)
                    json.dump({"property": prop.id, "kind": "correspondence-broken (static tie)",
                               "broken": deferred,
                               "theorems_no_longer_tied_to_the_code": build.obligations(prop.id)["theorems"],
                               "note": "no input was found on which the property itself fails; the property is no longer shown to hold"},
                              open(path, "w"), indent=1)
                    print("VIOLATION property=%s replay=%s no-failing-input-found" % (prop.id, path))
                    self.violations.append(path)
            self.restarts = ctx.impl.restarts
        finally:
            ctx.close()
            for b in list(bins.values()) + [model_bin]:
                try:
                    os.unlink(b)
                except OSError:
                    pass
        self.write_evidence()
        return 1 if self.violations else 0

    def _stream(self, rng):
        for c in self.prop.corpus():
            yield c
        for c in self.prop.cases(rng, self.tier):
            yield c

    def write_evidence(self):
        prop = self.prop
        ob = build.obligations(prop.id)
        cov = {
            "obligations": len(ob["theorems"]),
            "discharged": len([t for t in ob["theorems"] if t in self.audit]),
            "checker_cmd": "cd /verif/lean && lake build %s && lake env lean <(#print axioms of each obligation)  [run by ./check; thorough adds: lake env leanchecker on the same modules]" % (" ".join(ob["module"]) if isinstance(ob["module"], list) else ob["module"]),
            "trusted_base": [
                "Lean 4.33.0 kernel" + (" + leanchecker re-check" if self.audit.get("_leanchecker") else ""),
                "axioms of every obligation ⊆ {propext, Classical.choice, Quot.sound} (audited on this run: %s)" % json.dumps({k: v for k, v in self.audit.items() if not k.startswith("_")}),
                "hand-written Lean model /verif/lean/CF/Model (std, omics-coordinate 0.2.0, rust-lapper 1.3.0, nonempty are modelled, not verified)",
                "correspondence check: /verif/harness (cfimpl, real crate from /repo's working tree) vs /verif/lean cfdriver (compiled model), compared by /verif/cfcheck",
            ] + list(prop.trusted),
            "obligation_names": ob["theorems"],
            "partial": ob.get("partial", []),
            "evaluations": self.evals,
            "requests_to_impl_and_model": self.requests,
            "distinct_nontrivial": len(self.nontrivial),
            "rule": prop.rule,
            "samples": self.samples if self.samples else [{"note": "no non-trivial sample recorded"}],
            "traces_validated_against_impl": self.evals,
            "disagreements": self.disagreements,
            "judge_failures": self.judge_failures,
            "known_findings_hit": self.known_hits,
            "distribution": dict(sorted(self.tags.items())),
            "explanation": prop.title,
            "exhaustive": False,
        }
        doc = {
            "property_id": prop.id,
            "tier": self.tier,
            "seed": self.seed,
            "level": prop.level if hasattr(prop, "level") else "proof",
            "coverage": cov,
            "assumptions": list(prop.assumptions),
            "wall_s": round(time.time() - self.t0, 2),
            "violations": len(self.violations),
        }
        os.makedirs(os.path.join(VERIF, "evidence"), exist_ok=True)
        json.dump(doc, open(os.path.join(VERIF, "evidence", "%s.json" % prop.id), "w"), indent=1, sort_keys=True)
