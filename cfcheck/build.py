"""Build the implementation side from /repo's working tree and the proof side from /verif/lean."""
import fcntl
import json
import os
import re
import shutil
import subprocess
import time

VERIF = os.path.dirname(os.path.dirname(os.path.abspath(__file__)))
REPO = os.environ.get("CFVERIF_REPO", "/repo")   # development aid: mutation runs use a private copy
HARNESS = os.path.join(VERIF, "harness")
LEAN = os.path.join(VERIF, "lean")
ALLOWED_AXIOMS = {"propext", "Classical.choice", "Quot.sound"}
FORBIDDEN = re.compile(r"\b(sorry|admit|native_decide|bv_decide|implemented_by)\b|^\s*axiom\s|\bunsafe\s|maxHeartbeats\s+0")


class BuildError(Exception):
    def __init__(self, what, detail):
        super().__init__(what)
        self.what = what
        self.detail = detail


class Lock:
    def __enter__(self):
        self.f = open(os.path.join(VERIF, ".build.lock"), "w")
        fcntl.flock(self.f, fcntl.LOCK_EX)
        return self

    def __exit__(self, *a):
        fcntl.flock(self.f, fcntl.LOCK_UN)
        self.f.close()


def env():
    e = dict(os.environ)
    e["CARGO_NET_OFFLINE"] = "true"
    return e


def build_impl(profile="ovf"):
    """cargo build of the harness against /repo's current working tree. Returns the binary path."""
    with Lock():
        shutil.copyfile(os.path.join(REPO, "Cargo.lock"), os.path.join(HARNESS, "Cargo.lock"))
        t = time.time()
        r = subprocess.run(["cargo", "build", "--offline", "--profile", profile], cwd=HARNESS, env=env(),
                           stdout=subprocess.PIPE, stderr=subprocess.STDOUT, text=True)
        if r.returncode != 0:
            raise BuildError("harness does not compile against /repo (profile %s)" % profile, r.stdout[-6000:])
        src = os.path.join(HARNESS, "target", profile, "cfimpl")
        # private copy so that a concurrent rebuild cannot swap the binary under a running check
        os.makedirs(os.path.join(VERIF, "work"), exist_ok=True)
        dst = os.path.join(VERIF, "work", "cfimpl-%s-%d" % (profile, os.getpid()))
        shutil.copyfile(src, dst)
        os.chmod(dst, 0o755)
        return dst, time.time() - t


def lean_sources():
    out = []
    for root, _, files in os.walk(LEAN):
        if ".lake" in root:
            continue
        for f in files:
            if f.endswith(".lean"):
                out.append(os.path.join(root, f))
    return sorted(out)


def strip_comments(text):
    text = re.sub(r"/-.*?-/", "", text, flags=re.S)
    text = re.sub(r"--.*", "", text)
    return text


def grep_forbidden():
    hits = []
    for p in lean_sources():
        body = strip_comments(open(p).read())
        for i, line in enumerate(body.split("\n")):
            if FORBIDDEN.search(line):
                hits.append("%s: %s" % (os.path.relpath(p, VERIF), line.strip()))
    return hits


def obligations(prop):
    d = json.load(open(os.path.join(LEAN, "obligations.json")))
    return d.get(prop, {"module": None, "theorems": []})


def build_lean(prop, leanchecker=False):
    """lake build of the property module and the driver; axiom audit of every obligation.
    Returns (driver path, audit dict)."""
    ob = obligations(prop)
    mods = ob["module"] if isinstance(ob["module"], list) else ([ob["module"]] if ob["module"] else [])
    with Lock():
        targets = ["cfdriver"] + mods
        r = subprocess.run(["lake", "build"] + targets, cwd=LEAN, stdout=subprocess.PIPE,
                           stderr=subprocess.STDOUT, text=True)
        if r.returncode != 0:
            raise BuildError("lake build failed for %s" % prop, r.stdout[-6000:])
        hits = grep_forbidden()
        if hits:
            raise BuildError("forbidden construct in Lean sources", "\n".join(hits))
        audit = {}
        if ob["theorems"]:
            os.makedirs(os.path.join(VERIF, "work"), exist_ok=True)
            af = os.path.join(VERIF, "work", "Audit_%s_%d.lean" % (prop, os.getpid()))
            with open(af, "w") as f:
                for mod in mods:
                    f.write("import %s\n" % mod)
                for t in ob["theorems"]:
                    f.write("#print axioms %s\n" % t)
            r = subprocess.run(["lake", "env", "lean", af], cwd=LEAN, stdout=subprocess.PIPE,
                               stderr=subprocess.STDOUT, text=True)
            os.unlink(af)
            if r.returncode != 0:
                raise BuildError("axiom audit failed for %s (missing theorem?)" % prop, r.stdout[-6000:])
            text = re.sub(r"\s+", " ", r.stdout)
            for t in ob["theorems"]:
                m = re.search(r"'%s' depends on axioms: \[([^\]]*)\]" % re.escape(t), text)
                if m:
                    axs = [a.strip() for a in m.group(1).split(",") if a.strip()]
                elif re.search(r"'%s' does not depend on any axioms" % re.escape(t), text):
                    axs = []
                else:
                    raise BuildError("axiom audit: no report for %s" % t, r.stdout[-3000:])
                bad = [a for a in axs if a not in ALLOWED_AXIOMS]
                if bad:
                    raise BuildError("theorem %s depends on unexpected axioms %s" % (t, bad), r.stdout[-3000:])
                audit[t] = axs
        if leanchecker and mods:
            for mod in mods:
                r = subprocess.run(["lake", "env", "leanchecker", mod], cwd=LEAN,
                                   stdout=subprocess.PIPE, stderr=subprocess.STDOUT, text=True)
                if r.returncode != 0:
                    raise BuildError("leanchecker rejected %s" % mod, r.stdout[-3000:])
            audit["_leanchecker"] = "ok"
        src = os.path.join(LEAN, ".lake", "build", "bin", "cfdriver")
        dst = os.path.join(VERIF, "work", "cfdriver-%d" % os.getpid())
        shutil.copyfile(src, dst)
        os.chmod(dst, 0o755)
        return dst, audit
