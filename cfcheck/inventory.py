"""Static source inventory (C06, C18): regenerates from /repo/src the multiset of panic-capable
tokens per (file, function) and compares it with the sites the model accounts for
(lean/panic_sites.json). A token scan, not a Rust parser (trusted base)."""
import json
import os
import re

REPO_SRC = os.path.join(os.environ.get("CFVERIF_REPO", "/repo"), "src")
SKIP_DIRS = ("bin",)

PANIC_TOKENS = [
    ("unwrap", re.compile(r"\.unwrap\(\)")),
    ("expect", re.compile(r"\.expect\(")),
    ("unreachable", re.compile(r"\bunreachable!")),
    ("panic", re.compile(r"\bpanic!")),
    ("assert", re.compile(r"\b(?:debug_)?assert(?:_eq|_ne)?!")),
    ("todo", re.compile(r"\btodo!|\bunimplemented!")),
    ("index", re.compile(r"[A-Za-z0-9_\)\]]\[[^\]\n]+\]")),
    ("arith", re.compile(r"(?<![=!<>\-+*/&|])\s[-+*/%]\s(?![=>])|[-+*/%]=|\s<<\s|\s>>\s")),
    ("cast", re.compile(r"\bas\s+(?:u8|u16|u32|u64|usize|i8|i16|i32|i64|isize|Number)\b")),
]
SHARING_TOKENS = [
    ("unsafe", re.compile(r"\bunsafe\b")),
    ("interior_mut", re.compile(r"\b(?:Cell|RefCell|UnsafeCell|OnceCell|Rc|Mutex|RwLock|OnceLock|LazyLock|Lazy|Condvar)\s*<|\bRc::|\bAtomic[A-Z]\w*|static\s+mut\b|thread_local!|\bstatic\s+[A-Z_]+\s*:")),
]


def strip(text):
    """remove comments, string/char literals and #[cfg(test)] modules"""
    out = []
    i, n = 0, len(text)
    while i < n:
        c = text[i]
        if text.startswith("//", i):
            j = text.find("\n", i)
            i = n if j < 0 else j
        elif text.startswith("/*", i):
            j = text.find("*/", i)
            i = n if j < 0 else j + 2
        elif c == '"':
            j = i + 1
            while j < n and text[j] != '"':
                j += 2 if text[j] == "\\" else 1
            out.append('""')
            i = j + 1
        elif c == "'" and i + 2 < n and (text[i + 2] == "'" or (text[i + 1] == "\\" and text.find("'", i + 2) in (i + 3, i + 4))):
            j = text.find("'", i + 2)
            out.append("' '")
            i = j + 1
        else:
            out.append(c)
            i += 1
    text = "".join(out)
    # drop #[cfg(test)] mod … { … }
    while True:
        m = re.search(r"#\[cfg\(test\)\]\s*(?:pub\s+)?mod\s+\w+\s*\{", text)
        if not m:
            break
        depth, j = 1, m.end()
        while j < len(text) and depth:
            depth += text[j] == "{"
            depth -= text[j] == "}"
            j += 1
        text = text[:m.start()] + text[j:]
    return text


def functions(text):
    """yield (fn name, body text) for every `fn` with a body, innermost attribution by brace depth"""
    for m in re.finditer(r"\bfn\s+(\w+)", text):
        j = m.end()
        # find the opening brace of the body (skip the signature; a `;` first means no body)
        depth_par = 0
        while j < len(text):
            ch = text[j]
            if ch in "(<[":
                depth_par += 1
            elif ch in ")>]":
                depth_par -= 1 if not (ch == ">" and text[j - 1] == "-") else 0
            elif ch == ";" and depth_par <= 0:
                j = -1
                break
            elif ch == "{" and depth_par <= 0:
                break
            j += 1
        if j < 0 or j >= len(text):
            continue
        depth, k = 1, j + 1
        while k < len(text) and depth:
            depth += text[k] == "{"
            depth -= text[k] == "}"
            k += 1
        yield m.group(1), text[j:k]


def scan():
    """-> {"file::fn::token": count} for panic tokens, and {"file::token": count} for sharing tokens"""
    sites, sharing = {}, {}
    for root, dirs, files in os.walk(REPO_SRC):
        dirs[:] = [d for d in dirs if d not in SKIP_DIRS]
        for f in sorted(files):
            if not f.endswith(".rs"):
                continue
            path = os.path.join(root, f)
            rel = os.path.relpath(path, REPO_SRC)
            text = strip(open(path).read())
            for name, rx in SHARING_TOKENS:
                c = len(rx.findall(text))
                if c:
                    sharing["%s::%s" % (rel, name)] = c
            fns = list(functions(text))
            # attribute each token to the innermost function: subtract nested function bodies
            for fname, body in fns:
                inner = body
                for g, b2 in fns:
                    if b2 != body and b2 in inner and len(b2) < len(body):
                        inner = inner.replace(b2, "")
                for tname, rx in PANIC_TOKENS:
                    c = len(rx.findall(inner))
                    if c:
                        key = "%s::%s::%s" % (rel, fname, tname)
                        sites[key] = sites.get(key, 0) + c
    return sites, sharing


def compare(accounted_path):
    """returns (unaccounted list, removed list, sharing dict)"""
    sites, sharing = scan()
    acc = json.load(open(accounted_path))["sites"]
    unaccounted = []
    for k, c in sorted(sites.items()):
        a = acc.get(k, {"count": 0})["count"]
        if c > a:
            unaccounted.append("%s: %d in the source, %d accounted for" % (k, c, a))
    removed = [k for k in acc if k not in sites]
    return unaccounted, removed, sharing


if __name__ == "__main__":
    import sys
    s, sh = scan()
    print(json.dumps({"sites": s, "sharing": sh}, indent=1, sort_keys=True))
